"""Known finding C02 (SSE-1 / SSE-2): a keyword that is NOT in the database returns the identifiers of a stored keyword.

    cd /repo && /venv/bin/python /verif/findings/C02_leading_nul.py      (exits 1 while the finding is present)

Both schemes zero-extend a keyword on the left to param_l bytes before it enters the PRP / PRF, so b'China' and b'\\x00China'
are the same dictionary word for them, while they are different keys of the database dict."""
import os, sys
sys.path.insert(0, os.getcwd())
bad = 0
for name in ('CGKO06.SSE1', 'CGKO06.SSE2'):
    mod = __import__('schemes.%s.construction' % name, fromlist=['x'])
    cfgmod = __import__('schemes.%s.config' % name, fromlist=['x'])
    cfg = dict(cfgmod.DEFAULT_CONFIG)
    if name.endswith('SSE2'):
        cfg.update(param_n=3, param_max=2)          # 3 files, no keyword in more than 2 of them
    cls = getattr(mod, name.split('.')[1])
    scheme = cls(cfg)
    db = {b'China': [b'\x11' * 8, b'\x22' * 8], b'Github': [b'\x33' * 8]}
    key = scheme.KeyGen()
    edb = scheme.EDBSetup(key, db)
    for w in (b'\x00China', b'\x00\x00Github'):
        assert w not in db
        got = scheme.Search(edb, scheme.TokenGen(key, w)).get_result_list()
        print(name, w, '->', got)
        if got:
            bad += 1
sys.exit(1 if bad else 0)
