"""Engine E3: real client, real server and real `websockets` on a virtual-time event loop with an in-memory
transport whose delivery order and timers the explorer decides (DESIGN 2/E3).

Nothing here models the library: `websockets.serve(handler, ...)` and `websockets.connect(...)` run unmodified on
VLoop, which replaces only what asyncio does NOT order - which connection's next in-flight chunk is delivered, and
whether a short timer fires before a pending delivery.
"""
import asyncio, collections, contextvars, heapq, itertools
from asyncio import base_events, events, transports

COMPONENT = contextvars.ContextVar('component', default='harness')


class Divergence(Exception):
    """a schedule prefix could not be replayed: the harness does not own some non-determinism"""


class Deadlock(Exception):
    """the driver's goal is not reached and nothing is enabled"""


class Horizon(Exception):
    """step budget exhausted"""


class Link:
    """one direction of one connection: FIFO of in-flight items"""

    def __init__(self, name, to_server):
        self.name = name
        self.q = collections.deque()
        self.dest = None
        self.to_server = to_server
        self.delivered = 0


class MemTransport(transports.Transport):
    def __init__(self, loop, protocol, name, ctx):
        super().__init__()
        self._loop = loop
        self._protocol = protocol
        self.out = None
        self.peer = None
        self._closing = False
        self._eof_sent = False
        self._lost = False
        self.name = name
        self.ctx = ctx
        self._extra = {'peername': ('mem', name), 'sockname': ('mem', name)}

    def component(self):
        return self.ctx.get(COMPONENT, 'harness')

    def get_extra_info(self, k, default=None):
        return self._extra.get(k, default)

    def is_closing(self):
        return self._closing

    def set_write_buffer_limits(self, high=None, low=None):
        pass

    def get_write_buffer_size(self):
        return 0

    def get_write_buffer_limits(self):
        return (0, 0)

    def pause_reading(self):
        pass

    def resume_reading(self):
        pass

    def is_reading(self):
        return not self._closing

    def can_write_eof(self):
        return True

    def set_protocol(self, protocol):
        self._protocol = protocol

    def get_protocol(self):
        return self._protocol

    def write(self, data):
        if self._closing or self._eof_sent or self._loop.dead.get(self.component()):
            return
        if self._loop.on_write:
            self._loop.on_write(self, bytes(data))
        self.out.q.append(('data', bytes(data)))

    def writelines(self, lines):
        self.write(b''.join(lines))

    def write_eof(self):
        if self._eof_sent or self._loop.dead.get(self.component()):
            return
        self._eof_sent = True
        self.out.q.append(('eof', None))

    def close(self):
        if self._closing:
            return
        self._closing = True
        if not self._eof_sent and not self._loop.dead.get(self.component()):
            self._eof_sent = True
            self.out.q.append(('eof', None))
        self._loop.call_soon(self._call_lost, None, context=self.ctx)

    abort = close

    def _call_lost(self, exc):
        if self._lost:
            return
        self._lost = True
        self._protocol.connection_lost(exc)

    def deliver(self, kind, data):
        if self._lost or self._loop.dead.get(self.component()):
            return
        if kind == 'data':
            if not self._closing:
                self._protocol.data_received(data)
        else:
            keep = self._protocol.eof_received()
            if not keep:
                self.close()

    def os_reset(self):
        """the owning process died: the peer sees the connection go away, nothing of ours runs any more"""
        if not self._eof_sent:
            self._eof_sent = True
            self.out.q.append(('eof', None))
        self._closing = True
        self._lost = True


class FakeServer:
    def __init__(self, loop, factory, key, ctx):
        self.loop, self.factory, self.key, self.ctx = loop, factory, key, ctx
        self.sockets = []

    def close(self):
        if self.loop.servers.get(self.key) is self:
            del self.loop.servers[self.key]

    async def wait_closed(self):
        return

    def is_serving(self):
        return self.loop.servers.get(self.key) is self

    def get_loop(self):
        return self.loop

    async def start_serving(self):
        return

    async def __aenter__(self):
        return self

    async def __aexit__(self, *a):
        self.close()


class VLoop(base_events.BaseEventLoop):
    SHORT = 2.0   # timers armed with a delay <= SHORT compete with deliveries at every choice point

    def __init__(self, choices=()):
        super().__init__()
        self._vtime = 0.0
        self.servers = {}
        self.links = []
        self.transports = []
        self.nconn = 0
        self.prefix = list(choices)
        self.trace = []          # (n_options, chosen, labels) per real choice point
        self.dead = {}
        self.steps = 0
        self._delays = {}
        self.eager_all = False   # True: no choice points at all (sequential histories)
        self.on_deliver = None   # hook(link, kind, data) for observers
        self.on_write = None     # hook(transport, data) at the instant a component writes
        self.errors = []         # exceptions reported to the loop's exception handler
        self.set_exception_handler(self._on_exception)
        self.default_pick = 0

    # ---- BaseEventLoop plumbing
    def time(self):
        return self._vtime

    def _process_events(self, event_list):
        pass

    def _write_to_self(self):
        pass

    def _on_exception(self, loop, context):
        exc = context.get('exception')
        self.errors.append((context.get('message'), repr(exc)))

    async def create_server(self, protocol_factory, host=None, port=None, **kw):
        s = FakeServer(self, protocol_factory, (host or 'h', port), contextvars.copy_context())
        self.servers[s.key] = s
        return s

    async def create_connection(self, protocol_factory, host=None, port=None, **kw):
        srv = self.servers.get((host or 'h', port))
        if srv is None or self.dead.get(srv.ctx.get(COMPONENT, 'harness')):
            raise ConnectionRefusedError(host, port)
        self.nconn += 1
        n = self.nconn
        cctx = contextvars.copy_context()
        sctx = srv.ctx.copy()
        cp = protocol_factory()
        sp = sctx.run(srv.factory)
        ct = MemTransport(self, cp, 'c%d' % n, cctx)
        st = MemTransport(self, sp, 's%d' % n, sctx)
        up = Link('up%d' % n, True)
        down = Link('down%d' % n, False)
        up.dest, down.dest = st, ct
        ct.out, st.out = up, down
        ct.peer, st.peer = st, ct
        self.links += [up, down]
        self.transports += [ct, st]
        sctx.run(sp.connection_made, st)
        cp.connection_made(ct)          # MUST be synchronous (websockets' connect() uses the protocol at once)
        return ct, cp

    def call_at(self, when, callback, *args, context=None):
        h = super().call_at(when, callback, *args, context=context)
        self._delays[id(h)] = when - self._vtime
        return h

    # ---- scheduling
    def _comp_of(self, handle):
        ctx = handle._context
        return ctx.get(COMPONENT, 'harness') if ctx is not None else 'harness'

    def _run_ready(self):
        n = len(self._ready)
        for _ in range(n):
            if not self._ready:
                break
            h = self._ready.popleft()
            if h._cancelled:
                continue
            if self.dead.get(self._comp_of(h)):
                continue
            h._run()

    def _is_invisible(self, link):
        if self.eager_all or not link.to_server:
            return True
        kind, data = link.q[0]
        return kind == 'data' and data.startswith(b'GET ')

    def _live_timers(self):
        out = []
        for h in self._scheduled:
            if h._cancelled:
                continue
            if self.dead.get(self._comp_of(h)):
                continue
            out.append(h)
        return out

    def _options(self):
        opts = [('net', l) for l in self.links if l.q and not self._is_invisible(l)]
        live = self._live_timers()
        short = [h for h in live if self._delays.get(id(h), 0) <= self.SHORT]
        if short and not self.eager_all:
            opts.append(('timer', min(short)))
        elif live and not opts:
            opts.append(('timer', min(live)))
        return opts

    def _fire(self, h):
        self._scheduled.remove(h)
        heapq.heapify(self._scheduled)
        h._scheduled = False
        self._vtime = max(self._vtime, h._when)
        self._delays.pop(id(h), None)
        self._ready.append(h)

    def _deliver(self, link):
        kind, data = link.q.popleft()
        link.delivered += 1
        if self.on_deliver:
            self.on_deliver(link, kind, data)
        link.dest.ctx.run(link.dest.deliver, kind, data)

    def step(self):
        """one scheduling step; returns False when nothing at all is enabled"""
        self.steps += 1
        if self._ready:
            self._run_ready()
            return True
        for l in self.links:
            if l.q and self._is_invisible(l):
                self._deliver(l)
                return True
        opts = self._options()
        if not opts:
            return False
        if len(opts) == 1:
            idx = 0
        else:
            i = len(self.trace)
            idx = self.prefix[i] if i < len(self.prefix) else self.default_pick
            if idx >= len(opts):
                if i < len(self.prefix):
                    raise Divergence('choice %d: index %d but only %d options' % (i, idx, len(opts)))
                idx = 0
            self.trace.append((len(opts), idx, tuple(o[1].name if o[0] == 'net' else 'timer' for o in opts)))
        kind, obj = opts[idx]
        if kind == 'net':
            self._deliver(obj)
        else:
            self._fire(obj)
        return True

    # ---- driving
    def run_until(self, pred, max_steps=200000):
        events._set_running_loop(self)
        try:
            while not pred():
                if self.steps > max_steps:
                    raise Horizon('step budget %d exhausted' % max_steps)
                if not self.step():
                    raise Deadlock('goal not reached and nothing is enabled')
        finally:
            events._set_running_loop(None)

    def run_main(self, coro, max_steps=200000, component='harness'):
        ctx = contextvars.copy_context()
        ctx.run(COMPONENT.set, component)
        events._set_running_loop(self)
        try:
            task = ctx.run(self.create_task, coro)
        finally:
            events._set_running_loop(None)
        self.run_until(task.done, max_steps)
        return task.result()

    def spawn(self, coro, component):
        """create a task tagged with a component (server#g, client#n)"""
        ctx = contextvars.copy_context()
        ctx.run(COMPONENT.set, component)
        events._set_running_loop(self)
        try:
            return ctx.run(self.create_task, coro)
        finally:
            events._set_running_loop(None)

    def advance(self, seconds, max_steps=200000):
        """let virtual time pass: run everything (incl. long timers) due within `seconds`"""
        done = []
        events._set_running_loop(self)
        try:
            self.call_later(seconds, done.append, 1)
        finally:
            events._set_running_loop(None)
        self.run_until(lambda: bool(done), max_steps)

    def quiesce(self, max_steps=200000):
        """run until only long timers remain"""
        events._set_running_loop(self)
        try:
            while True:
                if self.steps > max_steps:
                    raise Horizon('step budget exhausted while quiescing')
                if self._ready or any(l.q for l in self.links):
                    self.step()
                    continue
                live = self._live_timers()
                if any(self._delays.get(id(h), 0) <= self.SHORT for h in live):
                    self.step()
                    continue
                break
        finally:
            events._set_running_loop(None)

    def kill(self, component):
        """kill -9 of one component: nothing tagged with it runs any more; peers see its connections go away"""
        self.dead[component] = True
        for t in self.transports:
            if t.component() == component and not t._lost:
                t.os_reset()
        for key, srv in list(self.servers.items()):
            if srv.ctx.get(COMPONENT, 'harness') == component:
                del self.servers[key]

    def shutdown(self):
        """cancel everything, step to quiescence, close (keeps stderr quiet)"""
        events._set_running_loop(self)
        try:
            for _ in range(5):
                tasks = [t for t in asyncio.all_tasks(self) if not t.done()]
                if not tasks:
                    break
                for t in tasks:
                    t.cancel()
                for _ in range(2000):
                    if self._ready:
                        n = len(self._ready)
                        for _ in range(n):
                            h = self._ready.popleft()
                            if not h._cancelled:
                                try:
                                    h._run()
                                except BaseException:
                                    pass
                    else:
                        break
            for l in self.links:
                l.q.clear()
            for h in list(self._scheduled):
                h.cancel()
            self._scheduled.clear()
            self._ready.clear()
        finally:
            events._set_running_loop(None)
        try:
            self.close()
        except Exception:
            pass


def explore(run, bound=None, limit=None, on_result=None):
    """Stateless DFS over choice sequences.  run(prefix) -> (trace, result) where trace is the list of
    (n_options, chosen, labels).  bound = max number of non-default choices (None = all).  Returns
    (n_executions, per_deviation_counts, capped)."""
    stack = [()]
    n = 0
    per_dev = collections.Counter()
    capped = False
    while stack:
        prefix = stack.pop()
        trace, result = run(prefix)
        n += 1
        choices = tuple(c for _, c, _ in trace)
        dev_prefix = sum(1 for c in choices[:len(prefix)] if c)
        per_dev[sum(1 for c in choices if c)] += 1
        if on_result:
            on_result(choices, trace, result)
        for i in range(len(trace) - 1, len(prefix) - 1, -1):
            # positions i >= len(prefix) took the default (0) in this run
            if bound is not None and dev_prefix + 1 > bound:
                break
            for alt in range(trace[i][0] - 1, 0, -1):
                stack.append(choices[:i] + (alt,))
        if limit and n >= limit:
            capped = bool(stack)
            break
    return n, dict(per_dev), capped
