"""Determinism seam (DESIGN 3.1): every source of randomness the library reads is owned here."""
import os, random, hashlib, logging, tempfile, shutil, atexit

_real_urandom = os.urandom
_real_random_urandom = getattr(random, '_urandom', None)      # what random.SystemRandom and the secrets module read
_state = {'home': None, 'pid': None}


def _h(*parts):
    return hashlib.sha256(repr(parts).encode()).digest()


class Drbg:
    """deterministic byte stream for os.urandom"""

    def __init__(self, *parts):
        self._r = random.Random(int.from_bytes(_h('drbg', *parts), 'big'))

    def read(self, n):
        return self._r.randbytes(n)


def seed_case(*parts):
    """key os.urandom and the module-level random generator by (seed, case)"""
    d = Drbg(*parts)
    os.urandom = d.read
    if _real_random_urandom is not None:
        random._urandom = d.read
    random.seed(int.from_bytes(_h('random', *parts)[:8], 'big'))
    return d


def rng(*parts):
    """a private generator for harness-side value choices (never shared with the library)"""
    return random.Random(int.from_bytes(_h('harness', *parts), 'big'))


def restore():
    os.urandom = _real_urandom
    if _real_random_urandom is not None:
        random._urandom = _real_random_urandom


def forked(n, fn):
    """fn(i) executed in n children forked one after the other from this process in its present state (a pre-fork server's
    workers); results come back pickled through a pipe.  The real randomness sources are put back first: the harness' own
    deterministic generator would of course be inherited identically by every child, and that is not the code's doing."""
    import pickle
    restore()
    random.seed()
    out = []
    for i in range(n):
        rfd, wfd = os.pipe()
        pid = os.fork()
        if pid == 0:
            try:
                os.close(rfd)
                try:
                    res = ('ok', fn(i))
                except BaseException as e:  # noqa
                    res = ('exc', '%s: %s' % (type(e).__name__, e))
                with os.fdopen(wfd, 'wb') as f:
                    pickle.dump(res, f)
            finally:
                os._exit(0)
        os.close(wfd)
        with os.fdopen(rfd, 'rb') as f:
            data = f.read()
        os.waitpid(pid, 0)
        out.append(pickle.loads(data) if data else ('exc', 'child %d died without a result' % i))
    return out


def as_user(fn, uid=65534):
    """fn() in a forked child that has given up root (uid/gid 65534, no supplementary groups): root ignores permission bits, an
    ordinary user does not.  The caller has run the same code once already in this process (every module it needs is imported:
    the interpreter's own library is not readable for that user here).  The scratch HOME of this process is handed over to the
    user first.  The DRBG state is inherited as it is (one child, same values as the parent would have drawn)."""
    import pickle
    home = worker_home()
    top = scratch_home()
    for d in {top, home}:
        os.chmod(d, 0o711)
    for root, dirs, files in os.walk(home):
        os.chown(root, uid, uid)
        for f in files:
            os.chown(os.path.join(root, f), uid, uid)
    rfd, wfd = os.pipe()
    pid = os.fork()
    if pid == 0:
        try:
            os.close(rfd)
            try:
                os.setgroups([])
                os.setgid(uid)
                os.setuid(uid)
                _state['worker_pid'] = os.getpid()          # keep using the scratch HOME that was just handed over
                _state['worker_home'] = home
                res = ('ok', fn())
            except BaseException as e:  # noqa
                import traceback
                res = ('exc', '%s: %s\n%s' % (type(e).__name__, e, traceback.format_exc()[-1500:]))
            with os.fdopen(wfd, 'wb') as f:
                pickle.dump(res, f)
        finally:
            os._exit(0)
    os.close(wfd)
    with os.fdopen(rfd, 'rb') as f:
        data = f.read()
    os.waitpid(pid, 0)
    for root, dirs, files in os.walk(home):          # back to root, whatever the child created
        os.chown(root, 0, 0)
        for f in files:
            os.chown(os.path.join(root, f), 0, 0)
    return pickle.loads(data) if data else ('exc', 'child died without a result')


def scratch_home():
    """Redirect HOME to a fresh directory under /dev/shm BEFORE any frontend.* / toolkit.logger import
    (those modules compute ~/.sse paths at import time).  Removed at exit by the creating process only."""
    if _state['home']:
        return _state['home']
    base = '/dev/shm' if os.path.isdir('/dev/shm') else tempfile.gettempdir()
    home = tempfile.mkdtemp(prefix='ssepy-verif-', dir=base)
    os.environ['HOME'] = home
    if os.environ.get('VERIF_HOME_UNWRITABLE'):
        # environment variant: the library runs with a HOME in which nothing can be created (a service account); the harness keeps
        # its own scratch directory
        os.environ['HOME'] = '/proc/ssepy-verif-no-such-home'
    _state['home'] = home
    _state['pid'] = os.getpid()
    logging.disable(logging.CRITICAL)

    def _cleanup():
        if os.getpid() == _state['pid']:
            shutil.rmtree(home, ignore_errors=True)
    atexit.register(_cleanup)
    return home


def workdir(name):
    """a fresh sub-directory of the scratch home for one history"""
    home = scratch_home()
    if _state.get('worker_pid') == os.getpid():
        home = _state['worker_home']
    d = tempfile.mkdtemp(prefix=name + '-', dir=home)
    return d


def worker_home():
    """a per-process HOME below the parent's scratch home (forked pool workers must not share ~/.sse);
    the parent removes the whole tree at exit"""
    parent = scratch_home()
    if os.getpid() == _state['pid']:
        return parent
    if _state.get('worker_pid') == os.getpid():
        return _state['worker_home']
    home = os.path.join(parent, 'w%d' % os.getpid())
    os.makedirs(home, exist_ok=True)
    os.environ['HOME'] = home
    _state['worker_pid'] = os.getpid()
    _state['worker_home'] = home
    return home


KEY_PATTERNS = ['ends-lf', 'ends-crlf', 'ends-nul', 'starts-nul', 'all-lf', 'all-space', 'all-ff', 'ends-space', 'starts-lf', 'ascii-digits']


class PatternDrbg:
    """os.urandom replacement that returns awkward-but-legal byte strings (for key material): a key is just bytes, and
    wire formats must not treat it as text"""

    def __init__(self, pattern, *parts):
        self.pattern = pattern
        self._r = random.Random(int.from_bytes(_h('pattern', pattern, *parts), 'big'))

    def read(self, n):
        b = bytearray(self._r.randbytes(n))
        if n == 0:
            return b''
        p = self.pattern
        if p == 'ends-lf':
            b[-1] = 0x0a
        elif p == 'ends-crlf':
            b[-2:] = b'\r\n'[-min(2, n):]
        elif p == 'ends-nul':
            b[-1] = 0
        elif p == 'starts-nul':
            b[0] = 0
        elif p == 'all-lf':
            b = bytearray(b'\n' * n)
        elif p == 'all-space':
            b = bytearray(b' ' * n)
        elif p == 'all-ff':
            b = bytearray(b'\xff' * n)
        elif p == 'ends-space':
            b[-1] = 0x20
        elif p == 'starts-lf':
            b[0] = 0x0a
        elif p == 'ascii-digits':
            b = bytearray((0x30 + x % 10) for x in b)
        return bytes(b)


def pattern_urandom(pattern, *parts):
    d = PatternDrbg(pattern, *parts)
    os.urandom = d.read
    return d
