"""Builds seeded/RESULTS.md from a log of `python -m mc.seeded` and the meta.json files."""
import os, sys, json, re

VERIF = os.path.dirname(os.path.dirname(os.path.abspath(__file__)))


def main(logs):
    rows = {}
    known = set()
    kf = os.path.join(VERIF, 'KNOWN_FINDINGS.txt')
    for line in open(kf, encoding='utf8'):
        m = re.match(r'^known:.*?signature=(\S+)', line)
        if m:
            known.add(m.group(1))
    for log in logs:
        for line in open(log):
            m = re.match(r'^(C\d\d-[A-Z])\s+(C\d\d) seed=(\d+) (\S+)\s+(\S+)?\s+([\d.]+)s (.*)$', line.rstrip())
            if m:
                sid, chk, seed, verdict, demo, secs, sigs = m.groups()
                sigs = ' '.join(x for x in sigs.split() if x.rstrip(',') not in known)      # known findings are not what caught the change
                rows.setdefault(sid, {})[chk] = (verdict, sigs.strip())
    out = ['# Seeded changes and the checks that catch them', '',
           'Each directory `seeded/<id>/` holds `patch.diff` (against /repo HEAD), `demo.py` (exit 1 with the patch, 0 without) and `meta.json`.',
           'Every change was produced by a sub-agent that saw only the property text and a scratch worktree, then confirmed here: patch applies, demo passes on the clean tree and fails with the patch, the repository tests that exercise the touched files pass.',
           'Verdicts below are from `/venv/bin/python -m mc.seeded` (quick tier, seed 0) on the committed checks.', '',
           '| id | property | what was changed | needs, in order to manifest | caught by (first signatures) |', '|---|---|---|---|---|']
    for sid in sorted(os.listdir(os.path.join(VERIF, 'seeded'))):
        mp = os.path.join(VERIF, 'seeded', sid, 'meta.json')
        if not os.path.isfile(mp):
            continue
        meta = json.load(open(mp))
        res = rows.get(sid, {})
        caught = '; '.join('**%s** %s `%s`' % (c, v, ' '.join(s.split()[:2])) for c, (v, s) in sorted(res.items())) or 'not run'
        clip = lambda t, n: (t[:n] + '…') if len(t) > n else t
        out.append('| %s | %s | %s | %s | %s |' % (sid, meta['property'], clip(meta.get('summary', '').replace('|', '/').replace('\n', ' '), 260),
                                                clip(str(meta.get('needs', '')).replace('|', '/').replace('\n', ' '), 260), caught))
    open(os.path.join(VERIF, 'seeded', 'RESULTS.md'), 'w').write('\n'.join(out) + '\n')
    print('rows', len(out) - 8)


if __name__ == '__main__':
    main(sys.argv[1:])
