"""Regenerates /verif/MANIFEST.json from the table below:  /venv/bin/python -m mc.manifest"""
import json, os

VERIF = os.path.dirname(os.path.dirname(os.path.abspath(__file__)))

ENGINES = {
    'E1': 'bounded-exhaustive enumeration of input/configuration shapes on the real code against a reference model',
    'E2': 'explicit-state search (BFS to fixpoint on a canonical state + undeduplicated depth-bounded DFS) over the real object',
    'E3': 'stateless schedule exploration of real client/server/websockets on a virtual-time event loop with an in-memory transport',
    'E4': 'E3 plus a crash file system that kills one component before/after every file-system mutation',
}

# id -> (engine, technique, level text, level note, design ref)
CHECKS = {
    'C18': ('E1', 'bounded-exhaustive enumeration vs list-of-bits reference model',
            'Every Bitset operation named by the property is executed for every value of every length 0..8 (all operand pairs for '
            'binary operators, all shifts, all k, all slices) and for boundary/DRBG values of lengths 9..300, and compared with an '
            'MSB-first list-of-bits model; exhaustive inside the stated bounds, nothing sampled below length 9.',
            'Trusts the 30-line list model; lengths above 8 are covered by boundary values (0,1,2^k-1,2^k,2^k+1) plus 3 DRBG values per length only.',
            'DESIGN.md 4/C18'),
}

NOT_YET = {}


def build():
    props = [json.loads(l)['id'] for l in open(os.path.join(VERIF, 'properties.jsonl'))]
    checks = []
    for pid in props:
        if pid not in CHECKS:
            continue
        eng, tech, text, note, ref = CHECKS[pid]
        checks.append({
            'property_id': pid,
            'quick_cmd': './check %s quick' % pid,
            'thorough_cmd': './check %s thorough' % pid,
            'evidence_file': '/verif/evidence/%s.json' % pid,
            'replay_cmd_template': './check %s --replay {path}' % pid,
            'engine': eng,
            'level_claimed': {'category': 'model_checking', 'text': text, 'design_ref': ref},
            'level_note': note,
            'technique': tech,
        })
    na = [{'property_id': p, 'reason': NOT_YET.get(p, 'check not built yet (work in progress in this session); nothing is claimed for it')}
          for p in props if p not in CHECKS]
    man = {
        'version': 1,
        'setup_cmd': 'true',
        'hooks': {
            'guard': 'SSEPY_VERIF',
            'enable': 'no source hooks: every seam (os.urandom, random, HOME, event loop, transports, file-system calls) is replaced '
                      'from the harness side by attribute replacement; ./check exports SSEPY_VERIF=1 for completeness',
            'baseline_off_cmd': 'cd /repo && /venv/bin/python -m pytest -ra -q -p no:cacheprovider --timeout=900 --continue-on-collection-errors',
            'source_commits': [],
            'add_only': True,
        },
        'engines': [{'name': k, 'path': 'mc/', 'serves_properties': [p for p, c in CHECKS.items() if c[0] == k], 'kind_free_text': v}
                    for k, v in ENGINES.items()],
        'checks': checks,
        'notes': 'All checks drive the implementation in /repo directly (imported from the working tree at run time, no build step). '
                 'Known findings: /verif/KNOWN_FINDINGS.txt. Seeded changes used to demonstrate detection: /verif/seeded/.',
        'not_applicable': na,
    }
    with open(os.path.join(VERIF, 'MANIFEST.json'), 'w') as f:
        json.dump(man, f, indent=1)
    return man


if __name__ == '__main__':
    m = build()
    print('checks:', [c['property_id'] for c in m['checks']], 'not claimed:', len(m['not_applicable']))
