"""Regenerates /verif/MANIFEST.json from the table below:  /venv/bin/python -m mc.manifest"""
import json, os

VERIF = os.path.dirname(os.path.dirname(os.path.abspath(__file__)))

ENGINES = {
    'E1': 'bounded-exhaustive enumeration of input/configuration shapes on the real code against a reference model',
    'E2': 'explicit-state search (BFS to fixpoint on a canonical state + undeduplicated depth-bounded DFS) over the real object',
    'E3': 'stateless schedule exploration of real client/server/websockets on a virtual-time event loop with an in-memory transport',
    'E4': 'E3 plus a crash file system that kills one component before/after every file-system mutation',
}

# id -> (engine, technique, level text, level note, design ref)
CHECKS = {
    'C01': ('E1', 'bounded-exhaustive enumeration of database shapes x configuration grid vs posting-list reference',
            'Every scheme x every point of the supported configuration grid (incl. misaligned-width, wide-keyword and capacity-upper-bound points) x every integer partition of every N<=8 (12 thorough) in both keyword '
            'orders, plus boundary profiles around every block/level/2^k/index-width/case-split length: KeyGen, EDBSetup and a search of EVERY '
            'stored keyword run on the real code; result compared with DB[w]; one scheme object per configuration reused across the cases of a unit and a per-scheme sweep over all configuration points in one process; the database is altered and encrypted again under the same key by the same object and both indexes are searched; many-keyword profiles ([1]*255..257, [2]*130, [3]*100, 1..30), KiB-long keywords, PiBas identifiers of mixed lengths, posting lists shared as one object, keywords with an empty posting list (refused or correct), bytes-like keyword objects, keyword / OrderedDict / dict-subclass construction. Exhaustive over shapes inside the bounds.',
            'One DRBG value assignment per shape and seed; shapes above the bounds are not covered.', 'DESIGN.md 4/C01'),
    'C02': ('E1', 'bounded-exhaustive enumeration of databases x adversarially close absent keywords',
            'All partitions of N<=6 (9) per scheme/configuration point x the absent-keyword family (prefix, suffix, +byte, +NUL, bit flips, '
            'case swap, concatenations, random, maximal length, empty, NUL-prefixed stored and random keywords, and the keywords of a second database under the same key): search must return empty and not raise. One known finding (SSE-1/SSE-2, NUL + stored keyword).',
            'Absent keywords are derived from at most 3 stored keywords per database; value-level collisions assumed negligible.', 'DESIGN.md 4/C02'),
    'C03': ('E1', 'bounded-exhaustive enumeration through three separate scheme instances joined only by wire bytes',
            'Per scheme/configuration point/partition: client, JSON-rebuilt server and JSON-rebuilt reloaded client exchange only serialized '
            'key, EDB, token and result; content and round-trip equality checked for every keyword, present and absent; 10 patterned keys per point; all configuration points swept in one process in both directions; the three parties have different object histories (long-lived vs brand-new).',
            'pickle is trusted as a container format; N<=5 (8).', 'DESIGN.md 4/C03'),
    'C04': ('E1', 'bounded-exhaustive enumeration + byte-level inspection of serialized index and tokens',
            'All partitions of N<=6 (9) x 2 content variants (distinct ids / one id under every keyword): substring absence of every keyword '
            'and identifier, pairwise-distinct ciphertext entries inside one index, disjoint entries across two setups of the same (K, DB) by one scheme object and a third by a brand-new object, incl. setups of 16..256 postings; the same identifier twice in a list; two deep / pickled copies of one scheme object.',
            'Decided for DRBG values only; ciphertext entries located by position per scheme.', 'DESIGN.md 4/C04'),
    'C05': ('E1', 'exhaustive enumeration of all list-length profiles, grouped by public size parameter, generic shape walk',
            'ALL partitions of every N<=12 (16) per scheme/configuration point, two content assignments each, plus equal-N families at N=600 and 1025 (3000), empty-list keywords and Pi2Lev configurations beyond its own guard (refused, or held to the rule), grouped by pi_S: the generic '
            'shape of the unpickled index must be one per class; every padded table has one key length and one value length.',
            'Shape = container sizes and byte-string lengths (what the property defines); N above the bound only at 2^k landmarks.', 'DESIGN.md 4/C05'),
    'C06': ('E1', 'exhaustive enumeration of keyword-order permutations; two-setup placement comparison with recording lists',
            'Label tables: all permutations (<=24) of every partition of N<=6 (8) with <=4 keywords under one key - sortedness and equality on '
            'common labels; 5400 postings in 60 lists in three keyword orders. Arrays: all profiles with 12..24 array-resident blocks (capped in quick), two setups, slots read by Search must differ; every 4th profile (thorough: all) 10 setups, no single block at one slot in all of them; DP17 in-bucket order; two copies of one scheme object must not replay a placement.',
            'Chance coincidence <= 1/12! per array case.', 'DESIGN.md 4/C06'),
    'C07': ('E2', 'explicit-state search over search histories (BFS on canonical state + all sequences to depth k, no dedup)',
            'Per scheme x 2 configurations x 3 databases: BFS over (EDB bytes, token bytes, config fingerprint) reaches a fixpoint with one '
            'state; all 5^k search sequences k<=4 (6) executed without dedup against answers computed by a scheme object that never searched anything else, with a second index of another database under the same key searched inside the histories; inputs (DB with bytes / bytearray identifiers, tuple posting lists, repeated identifiers, a build refused part-way; cfg dict without scheme entry / with extra entry / reordered; key bytes; DEFAULT_CONFIG) compared with deep copies.',
            'Hidden state outside EDB/token/scheme objects (e.g. module globals) would only be seen through changed answers.', 'DESIGN.md 4/C07'),
    'C08': ('E1', 'bounded-exhaustive enumeration of configuration dictionaries (single + pairwise departures, deletions, names)',
            'Every single and pairwise departure over the full value domain of every field, every primitive name, every single-field deletion and the empty configuration, '
            'x 5 valid databases: refused loudly or every answer correct; a needed-but-missing field must be refused at build time.',
            'Triples only for length fields (thorough); databases valid for the configuration only.', 'DESIGN.md 4/C08'),
    'C09': ('E3', 'exhaustive enumeration of client-reload / server-restart placements on the virtual network (real client, server, websockets)',
            'All 9 schemes x 2 JSON databases x all 2^6 keep/reload placements over the workflow boundaries x 3 server-restart options; every '
            'keyword and an absent keyword searched twice; delivered bytes, hex/int/raw/utf8 renderings compared with the JSON database; plus two interleaved services per scheme, patterned keys, all 27 cleanup-timer firings between the networked steps, an early-loaded second client object; the workflow through frontend/client/commands.py itself (JSON files, service by name, printed hex/int results) for 3 databases per scheme; one workflow with a result above 1 MiB; name collisions in the CLI; concurrent searches of two services in one client process; sids with URL-special and non-ASCII characters.',
            'One client at a time, hence no scheduling choices; in-memory transport (loopback-TCP replays: mc/loopback.py).', 'DESIGN.md 4/C09'),
    'C10': ('E2', 'explicit-state BFS to fixpoint + all histories to depth k over the real connection handler on the virtual network, 3-state reference model',
            'Alphabet of 15 protocol events (two configs, two indexes, search, a second token under the same correlation value, reconnect before/after the cleanup delay, five foreign sids incl. same-first-8-characters / other case / one character longer or shorter, missing sid, unknown type, three malformed messages, a configuration that cannot be stored) '
            'applied to every reachable canonical state (model + files + active Service snapshot + registry + timers); all histories of length <= 4 (5) without dedup.',
            'One connection at a time; canonical state abstracts the number of stale cleanup timers to 0/1/several.', 'DESIGN.md 4/C10'),
    'C11': ('E2', 'explicit-state BFS to fixpoint + all histories to depth k over the real client Service (fresh object per command) against a live server, 5-flag reference model',
            'Alphabet of 9 client operations incl. two uninstantiable configurations and create-again; every reachable flag set x every operation; all histories of '
            'length <= 5 (6); refusal leaves files byte-identical; persisted flags; key bytes write-once; searches after upload; the same through frontend/client/commands.py (10 commands, one process); create-matrix over all 9 schemes (created <=> the scheme can be constructed).',
            'PiBas (thorough: + CT14); operations before any create use a well-formed unknown sid as the CLI would.', 'DESIGN.md 4/C11'),
    'C12': ('E3', 'stateless exploration of all delivery/timer schedules (deviation-bounded for 3 connections) of the real server under scripted raw connections',
            'Every ordered pair of 6 scripts (incl. open-then-close without a request) x 3 initial durable states: ALL schedules (no cap hit in quick); the same pairs with a different request path per connection at deviation bound 2 (4), and with the cleanup of the preceding connection still pending; 9 triples + 8 triples with a connection that leaves last / gives up while waiting; triples x 3 states with <= 2 (4) '
            'deviations; oracles O1-O5 (serialisation at the instant of each server write, monotone durable state, single acknowledgement, control notice, no stuck request).',
            'Timer rule (only <= 2 s timers are schedulable), per-connection FIFO, client-bound frames eager; 3 connections only deviation-bounded.', 'DESIGN.md 4/C12'),
    'C13': ('E4', 'exhaustive crash-point enumeration (kill one component before/after every file-system mutation) on the virtual network with a crash file system',
            'Every mutation inside the persisting handlers named by the property x {before, after}, for a small and a multi-chunk PiBas workflow and the small one driven through frontend/client/commands.py with the service addressed by name; for the small workflow a SECOND crash (client or server) before/after every in-scope mutation of the retry and of every later command '
            '(thorough: + Pi2Lev, DP17): survivor runs on, dead component restarted on the same directory, probe handshake, client reload, retry rule, rest of the workflow, final searches.',
            'Crash model of the property (no write reordering, no torn 8 KiB chunk); SIGKILL replays of the interposer: mc/loopback.py.', 'DESIGN.md 4/C13'),
    'C14': ('E1', 'exhaustive enumeration of message lengths x key sizes vs independent AES-CBC/PKCS7 computation',
            'All message lengths 0..200 (0..300 + long) x 3 key sizes x 3 keys; declared-length variants; all wrong key lengths 0..40; constructor domain; 600 (5000) encryptions by one object with pairwise distinct IVs, every IV byte position varying; keyword calls, pickled / deep-copied cipher objects; wrong keys one bit away at byte 0, 16 and the last byte; 3000 (20000) wrong keys per ciphertext; lengths around 256 and 4096.',
            'cryptography\'s AES is the trusted reference; keys are DRBG values.', 'DESIGN.md 4/C14'),
    'C15': ('E1', 'exhaustive enumeration of the whole domain {0,1}^n (bijection) + bounded widths',
            'BitwiseFFX: all 2^n inputs for n=2..12 (13) under 3 keys - bijection and both inverses; 24 non-default constructions (even rounds x digests) for all inputs of n=2..8 (10); 20 keys through one object in three orders; messages built by Bitset operators; 9 more digests at small and wide widths; bytes-like arguments of the wrong size; four PRP objects alive at once and their copies; all widths 12..2..12 under ONE key in one process through the PRP wrapper; wide n incl. around 160/320/2047 bits; '
            'Luby-Rackoff: all 65536 two-byte messages, four-byte messages injective on every one-half-exhaustive slice, even lengths 2..64 and 96..4096 sampled; all length contracts.',
            '3 keys per width; wide widths use 20 DRBG inputs.', 'DESIGN.md 4/C15'),
    'C16': ('E1', 'bounded-exhaustive enumeration vs independent RFC 5246 P_hash and counter-mode references',
            'quick: boundary grid of key/message/output lengths per digest; thorough: the full 81x201x200 box per digest; TLS 1.2 vector anchors '
            'reference and implementation; 2000-pair distinctness; contracts; every call history of length <= 4 over valid/refused calls on one object; outputs of 255..257 blocks and 70000 bytes, KiB messages; keyword calls, copied objects, four PRF objects alive at once.',
            'hashlib/hmac are the trusted base.', 'DESIGN.md 4/C16'),
    'C17': ('E1', 'bounded-exhaustive enumeration of sizes/capacities/lengths/compositions',
            'Block partition/parse round trips over (identifier size, capacity, list length, block size) grids (thorough: all 40x70 x dense '
            'lengths), ALL compositions of lengths <=9 (12) for split, all widths 0..41 for int conversions, XOR (random, result-structured and one-byte-exhaustive operands), hex database formats incl. every sequence of 1..4 identifier lengths, posting lists as tuple / generator / iterator, composed vs decomposed Unicode keywords.',
            'Identifier bytes are DRBG values plus awkward members.', 'DESIGN.md 4/C17'),
    'C18': ('E1', 'bounded-exhaustive enumeration vs list-of-bits reference model',
            'Every Bitset operation named by the property is executed for every value of every length 0..8 (all operand pairs for '
            'binary operators, all shifts, all k, all slices) and for boundary/DRBG values of lengths 9..300, and compared with an '
            'MSB-first list-of-bits model, and every unary operation is applied to every first-level RESULT of every operator (lengths 1..6); exhaustive inside the stated bounds, nothing sampled below length 9; plus aliasing (every returned list modified in place), pickle / copy round trips, byte strings that are too wide / empty / carry leading zero bytes.',
            'Trusts the 30-line list model; lengths above 8 are covered by boundary values (0,1,2^k-1,2^k,2^k+1) plus 3 DRBG values per length only.',
            'DESIGN.md 4/C18'),
    'C19': ('E2', 'explicit-state BFS to fixpoint over the real array + undeduplicated depth-bounded DFS, list reference model',
            'For every (len<=3 (4), item_size<=2 (3), items_per_file<=len+2): every event of a ~3k-event alphabet (all indices, all raw slices, '
            'all bad-element positions, close/reopen) applied to every reachable canonical state (cold-cache states included: read-backs leave no trace), complete read-back incl. close+open after every state-changing transition; all histories to depth 3 (4) on larger '
            'configurations without dedup; configurations with 12 and 70 chunk files; slice values as generator / tuple.',
            'Fixpoint only for small arrays; lengths up to 40 only by depth-bounded search (thorough).', 'DESIGN.md 4/C19'),
    'C20': ('E2', 'explicit-state BFS to fixpoint over the real dictionaries + undeduplicated depth-bounded DFS, dict reference model',
            'PickledDict full life cycle and DBMDict within one session: every event applied to every reachable (ordered items, closed) state '
            'over 3 (4) keys x 3 values, complete read-back (and close+open / sync) after every state-changing transition; all histories to depth 4 (5) without dedup; from_dict independence for every sub-dictionary; one scripted history per class with KiB values, hundreds of keys and 6 reopen/sync points.',
            'dbm.dumb only; DBMDict reopen is outside the property.', 'DESIGN.md 4/C20'),
}

NOT_YET = {}

# what is added to the level text about process environments (DESIGN 3.1a) and the last directed additions
ENVIRONMENTS = {
    'C01': 'One list of 1100 and of 3000 postings per scheme; setups refused part-way by the same scheme object before every fourth case. A subset of the units again under python -O.',
    'C02': 'Every sequence of <= 3 (thorough 4) searches over two indexes built by one scheme object under one key x four keywords that ends in an absent keyword, second index built before any search or after the first. The whole universe of one-byte and of two-byte keywords searched against databases of such keywords. A subset of the units again under python -O and with a HOME in which nothing can be created.',
    'C03': 'Tokens and keys are generated until the first two bytes of their wire form have taken every one of the 65536 values; the first object with each prefix is round-tripped.',
    'C04': 'The same (K, DB) encrypted by three workers forked from a process that has already built an index: entries disjoint across processes.',
    'C05': 'A subset of the units again on hosts reporting 6 and 7 processors.',
    'C06': 'Three workers forked from a process that has already built an index must not repeat a placement.',
    'C07': 'A subset of the units again under python -O and under a finite address-space limit.',
    'C08': 'A subset of the units again under python -O.',
    'C09': 'The same client object first refuses three other schemes\' uninstantiable configurations. The workflow cut at each of its 6 step boundaries into two real interpreters with different hash seeds that share only the on-disk state.',
    'C10': 'One server process serving 220 (800) consecutive connections, again under a 128 open-files limit; BFS again under python -O.',
    'C11': 'A subset of the units again under python -O.',
    'C12': 'Three triples whose first connection stays for 70 virtual seconds (past every periodic timer) with two queued behind it.',
    'C13': 'The crash points of the two small workloads again as an ordinary user (uid 65534) instead of root.',
    'C14': 'Ciphertexts written by objects with a declared message length meet the full oracle and are read back by the undeclared object and by one declaring both lengths. Three workers forked from a process that has used the cipher: IVs, ciphertexts and generated keys pairwise distinct across processes. Contract units again under python -O.',
    'C15': 'Contract units again under python -O.',
    'C16': 'Contract units again under python -O.',
    'C17': 'A subset of the units again under python -O and under the C locale with UTF-8 mode off.',
    'C18': 'A subset of the units again under python -O.',
    'C19': 'DFS units again under python -O and, with relative array paths, in a child interpreter whose working directory at import differs from the one at use.',
    'C20': 'PickledDict under a relative path with the working directory elsewhere between open and every sync/close; sync/close under a file-size limit (a call that returns has stored the contents); DFS units again under python -O.',
}


def build():
    props = [json.loads(l)['id'] for l in open(os.path.join(VERIF, 'properties.jsonl'))]
    checks = []
    for pid in props:
        if pid not in CHECKS:
            continue
        eng, tech, text, note, ref = CHECKS[pid]
        if pid in ENVIRONMENTS:
            text = text.rstrip() + ' ' + ENVIRONMENTS[pid]
        if pid in ('C01', 'C02', 'C03', 'C04', 'C05', 'C07'):
            text = text.rstrip() + ' Configuration grid at the quick tier: default point, small base point, every single-parameter departure and a strength-2 covering array over the axes (every pair of departures on two axes occurs together in some row); thorough: all pairwise products.'
        checks.append({
            'property_id': pid,
            'quick_cmd': './check %s quick' % pid,
            'thorough_cmd': './check %s thorough' % pid,
            'evidence_file': '/verif/evidence/%s.json' % pid,
            'replay_cmd_template': './check %s --replay {path}' % pid,
            'engine': eng,
            'level_claimed': {'category': 'model_checking', 'text': text, 'design_ref': ref},
            'level_note': note,
            'technique': tech,
        })
    na = [{'property_id': p, 'reason': NOT_YET.get(p, 'check not built yet (work in progress in this session); nothing is claimed for it')}
          for p in props if p not in CHECKS]
    man = {
        'version': 1,
        'setup_cmd': 'true',
        'hooks': {
            'guard': 'SSEPY_VERIF',
            'enable': 'no source hooks: every seam (os.urandom, random, HOME, event loop, transports, file-system calls) is replaced '
                      'from the harness side by attribute replacement; ./check exports SSEPY_VERIF=1 for completeness',
            'baseline_off_cmd': 'cd /repo && /venv/bin/python -m pytest -ra -q -p no:cacheprovider --timeout=900 --continue-on-collection-errors',
            'source_commits': [],
            'add_only': True,
        },
        'engines': [{'name': k, 'path': 'mc/', 'serves_properties': [p for p, c in CHECKS.items() if c[0] == k], 'kind_free_text': v}
                    for k, v in ENGINES.items()],
        'checks': checks,
        'notes': 'All checks drive the implementation in /repo directly (imported from the working tree at run time, no build step). '
                 'Known findings: /verif/KNOWN_FINDINGS.txt. Seeded changes used to demonstrate detection: /verif/seeded/.',
        'not_applicable': na,
    }
    with open(os.path.join(VERIF, 'MANIFEST.json'), 'w') as f:
        json.dump(man, f, indent=1)
    return man


if __name__ == '__main__':
    m = build()
    print('checks:', [c['property_id'] for c in m['checks']], 'not claimed:', len(m['not_applicable']))
