"""Engine E4: crash file system (DESIGN 2/E4).

Replaces builtins.open / io.open, os.mkdir, os.unlink / os.remove, os.rename / os.replace and shutil.rmtree for paths
under the scratch ~/.sse (log/ excluded).  Every file-system *mutation* is numbered per component (the component
is the vnet.COMPONENT context variable of the code performing it).  A run armed with (component, k, 'before'|'after')
kills that component at its k-th mutation: the mutation is not performed ('before') or is performed completely
('after'), the component is marked dead on the loop, vnet.Crash unwinds its stack, and from then on every file
mutation, transport write and loop callback tagged with it is dropped - what `kill -9` would do.  Data written to a
file object is buffered by the proxy and reaches the real file as one "write" mutation per 8 KiB chunk on
flush/close; buffered data of a dead component is discarded.
"""
import builtins, io, os, shutil, sys, collections
from mc import vnet


class Crash(BaseException):
    """derives from BaseException so that the code's own `except Exception:` handlers cannot swallow it"""


HANDLERS = ('handle_upload_config_echo', 'handle_upload_encrypted_database_echo', 'handle_create_config', 'handle_create_key',
            'handle_encrypt_database', 'handle_upload_config', 'handle_upload_encrypted_database', 'close_service',
            'handle_search_token', 'handle_keyword_search', 'record_sname_id_pair', 'create_service')


def handler_on_stack():
    f = sys._getframe(2)
    names = []
    while f is not None:
        names.append(f.f_code.co_name)
        f = f.f_back
    for n in names:
        if n in HANDLERS:
            return n
    return None


class CrashFS:
    CHUNK = 8192

    def __init__(self, loop, root):
        self.loop = loop
        self.root = os.path.abspath(root)
        self.log_dir = os.path.join(self.root, 'log')
        self.ops = collections.defaultdict(list)     # component -> [(kind, relpath, handler, step)]
        self.arm = None                              # (component, k, 'before'|'after')
        self.step = None                             # label set by the harness
        self.crashed = None
        self._real = dict(open=builtins.open, io_open=io.open, mkdir=os.mkdir, unlink=os.unlink, remove=os.remove,
                          replace=os.replace, rename=os.rename, rmtree=shutil.rmtree)
        self.installed = False

    # ---- install / uninstall
    def install(self):
        builtins.open = self.open
        io.open = self.open
        os.mkdir = self.mkdir
        os.unlink = self.unlink
        os.remove = self.unlink
        os.replace = self.replace
        os.rename = self.replace
        shutil.rmtree = self.rmtree
        self.installed = True

    def uninstall(self):
        if not self.installed:
            return
        r = self._real
        builtins.open = r['open']
        io.open = r['io_open']
        os.mkdir = r['mkdir']
        os.unlink = r['unlink']
        os.remove = r['remove']
        os.replace = r['replace']
        os.rename = r['rename']
        shutil.rmtree = r['rmtree']
        self.installed = False

    def _mine(self, path):
        try:
            p = os.fspath(path)
        except TypeError:
            return False
        if isinstance(p, bytes):
            p = p.decode()
        p = os.path.abspath(p)
        return p.startswith(self.root + os.sep) and not p.startswith(self.log_dir)

    def _rel(self, path):
        return os.path.relpath(os.path.abspath(os.fspath(path)), self.root)

    # ---- the crash point
    def mutate(self, kind, path, action, comp=None):
        comp = comp or vnet.COMPONENT.get()
        if comp == 'harness':
            return action()
        if self.loop.dead.get(comp):
            raise Crash()                         # a dead process does nothing
        k = len(self.ops[comp])
        self.ops[comp].append((kind, self._rel(path), handler_on_stack(), self.step))
        if self.arm and self.arm[0] == comp and self.arm[1] == k:
            if self.arm[2] == 'before':
                self.crashed = (comp, k, 'before')
                self.loop.kill(comp)
                raise Crash()
            try:
                action()
            except OSError:
                pass              # the call failed and changed nothing (mkdir on an existing directory): killed right after it returned
            self.crashed = (comp, k, 'after')
            self.loop.kill(comp)
            raise Crash()
        return action()

    # ---- interposed calls
    def open(self, file, mode='r', *a, **kw):
        if isinstance(file, int) or not self._mine(file) or not any(c in mode for c in 'wax+'):
            return self._real['open'](file, mode, *a, **kw)
        comp = vnet.COMPONENT.get()
        if comp == 'harness':
            return self._real['open'](file, mode, *a, **kw)
        binary = 'b' in mode
        raw_mode = mode.replace('t', '')
        if not binary:
            raw_mode += 'b'

        def do_open():
            return self._real['open'](file, raw_mode, buffering=0)
        holder = {}

        def act():
            holder['raw'] = do_open()
        self.mutate('open-' + mode, file, act)
        return ProxyFile(self, holder['raw'], file, binary, comp, kw.get('encoding') or 'utf-8')

    def mkdir(self, path, *a, **kw):
        if not self._mine(path):
            return self._real['mkdir'](path, *a, **kw)
        return self.mutate('mkdir', path, lambda: self._real['mkdir'](path, *a, **kw))

    def unlink(self, path, *a, **kw):
        if not self._mine(path):
            return self._real['unlink'](path, *a, **kw)
        return self.mutate('unlink', path, lambda: self._real['unlink'](path, *a, **kw))

    def replace(self, src, dst, *a, **kw):
        if not self._mine(dst):
            return self._real['replace'](src, dst, *a, **kw)
        return self.mutate('replace', dst, lambda: self._real['replace'](src, dst, *a, **kw))

    def rmtree(self, path, *a, **kw):
        if not self._mine(path):
            return self._real['rmtree'](path, *a, **kw)
        return self.mutate('rmtree', path, lambda: self._real['rmtree'](path, *a, **kw))


class ProxyFile:
    def __init__(self, fs, raw, path, binary, comp, encoding):
        self.fs, self.raw, self.path, self.binary, self.comp, self.encoding = fs, raw, path, binary, comp, encoding
        self.buf = bytearray()
        self.closed = False
        self.name = os.fspath(path)
        self.mode = 'wb' if binary else 'w'

    def write(self, data):
        if self.closed:
            raise ValueError('I/O operation on closed file.')
        if not self.binary:
            data = data.encode(self.encoding)
        self.buf += bytes(data)
        return len(data)

    def flush(self):
        if self.fs.loop.dead.get(self.comp):
            self.buf.clear()
            return
        while self.buf:
            chunk = bytes(self.buf[:self.fs.CHUNK])
            del self.buf[:self.fs.CHUNK]
            self.fs.mutate('write', self.path, lambda: self.raw.write(chunk), comp=self.comp)

    def close(self):
        if self.closed:
            return
        self.closed = True
        try:
            self.flush()
        finally:
            self.raw.close()

    def __enter__(self):
        return self

    def __exit__(self, et, ev, tb):
        if et is not None and issubclass(et, Crash):
            self.buf.clear()
            self.closed = True
            self.raw.close()
            return False
        self.close()
        return False

    def __del__(self):
        try:
            if not self.closed:
                self.buf.clear()
                self.raw.close()
        except Exception:
            pass

    def writable(self):
        return True

    def readable(self):
        return False

    def seekable(self):
        return False

    def fileno(self):
        return self.raw.fileno()

    def tell(self):
        return self.raw.tell() + len(self.buf)
