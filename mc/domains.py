"""Finite case families for engine E1 (DESIGN 4, "Common definitions")."""
import math, itertools


def partitions(n, maxp=None):
    """all integer partitions of n, parts in descending order, lexicographically descending"""
    maxp = maxp or n
    if n == 0:
        yield []
        return
    for k in range(min(n, maxp), 0, -1):
        for rest in partitions(n - k, k):
            yield [k] + rest


def profiles(max_n, min_n=1, both_orders=True):
    """P(N<=max_n): every partition of every N, simplest first, in descending and ascending keyword order"""
    out = []
    for n in range(min_n, max_n + 1):
        ps = sorted(partitions(n), key=lambda p: (len(p), p))
        for p in ps:
            out.append(list(p))
            if both_orders and p != p[::-1]:
                out.append(list(p[::-1]))
    return out


def compositions(n, max_parts=None):
    """all ordered compositions of n"""
    if n == 0:
        yield []
        return
    for first in range(1, n + 1):
        for rest in compositions(n - first):
            if max_parts is None or len(rest) + 1 <= max_parts:
                yield [first] + rest


def around(values, lo=1):
    s = set()
    for v in values:
        for d in (-1, 0, 1):
            if v + d >= lo:
                s.add(v + d)
    return sorted(s)


def boundary_profiles(lengths, extra=True):
    """single-keyword profiles at the given lengths, plus 'boundary + one extra keyword' in both orders"""
    out = []
    for v in lengths:
        out.append([v])
    if extra:
        for v in lengths:
            out.append([v, 1])
            out.append([1, v])
    return out


# --------------------------------------------------------------------------- contents
def make_keywords(count, kwlen, g):
    """distinct keywords of exactly kwlen bytes, no leading NUL"""
    kws, seen = [], set()
    if kwlen == 1:
        pool = list(range(1, 256))
        g.shuffle(pool)
        if count > len(pool):
            raise ValueError('too many 1-byte keywords')
        return [bytes([b]) for b in pool[:count]]
    while len(kws) < count:
        w = bytes([g.randrange(1, 256)]) + g.randbytes(kwlen - 1)
        if w not in seen:
            seen.add(w)
            kws.append(w)
    return kws


def make_ids(count, size, g, awkward=True):
    """count distinct identifiers of exactly `size` bytes, none all-zero; awkward members first"""
    ids, seen = [], set()

    def add(x):
        if x not in seen and any(x) and len(x) == size:
            seen.add(x)
            ids.append(x)

    if size == 1:
        pool = list(range(1, 256))
        g.shuffle(pool)
        if count > 255:
            raise ValueError('too many 1-byte identifiers')
        return [bytes([b]) for b in pool[:count]]
    if awkward and size >= 2:
        add(b'\x00' * (size - 1) + b'\x01')
        add(b'\x01' + b'\x00' * (size - 1))
        add(b'\x00' + bytes([g.randrange(1, 256)]) + g.randbytes(size - 2))
        add(g.randbytes(size - 2) + bytes([g.randrange(1, 256)]) + b'\x00')
        g.shuffle(ids)
    while len(ids) < count:
        add(g.randbytes(size))
    return ids[:count]


def make_db(profile, id_size, kwlen, g, relation='disjoint', awkward=True):
    """database {keyword: [ids]} with the given list-length profile (dict order = profile order)"""
    kws = make_keywords(len(profile), kwlen, g)
    total = sum(profile)
    if relation == 'aliased':
        # keywords with equally long lists share ONE list object (db[w2] = db[w1]): a valid database - the two keywords occur in
        # the same documents - whose lists a scheme must not treat as its own scratch space
        ids = make_ids(max(profile) if profile else 0, id_size, g, awkward) if id_size > 1 or max(profile) <= 255 else []
        by_len, db = {}, {}
        for w, n in zip(kws, profile):
            if n not in by_len:
                by_len[n] = list(ids[:n])
            db[w] = by_len[n]
        return db
    if relation == 'mixed-ids':
        # identifiers of different lengths in one database (for a scheme without an identifier-size parameter): the lengths
        # straddle the 16-byte cipher block boundary, so ciphertext entries of one index have different lengths
        lens = [8, 16, 1, 15, 17, 33, 40, 32]
        db, c = {}, 0
        for w, n in zip(kws, profile):
            db[w] = []
            for _ in range(n):
                ln = lens[c % len(lens)]
                body = (b'%04d' % c)[:ln] if ln < 5 else b'%04d' % c + g.randbytes(ln - 5) + bytes([g.randrange(1, 256)])
                if ln == 1:
                    body = bytes([1 + c % 255])
                db[w].append(body)
                c += 1
        return db
    if relation == 'disjoint' and (id_size > 1 or total <= 255):
        ids = make_ids(total, id_size, g, awkward)
        g2 = ids[:]
        g.shuffle(g2)
        db, c = {}, 0
        for w, n in zip(kws, profile):
            db[w] = g2[c:c + n]
            c += n
        return db
    # shared pool: every list is a rotation-prefix of one pool (duplicates across keywords, none inside a list)
    pool = make_ids(max(profile), id_size, g, awkward)
    db = {}
    for i, (w, n) in enumerate(zip(kws, profile)):
        rot = pool[i % len(pool):] + pool[:i % len(pool)]
        db[w] = rot[:n]
    return db


def absent_keywords(db, kwlimit, g):
    """adversarially close and random keywords that are really absent and valid"""
    stored = list(db)
    cands = []
    for w in stored[:3]:
        if len(w) > 1:
            cands.append(('prefix', w[:-1]))
            cands.append(('suffix', w[1:]))
        cands.append(('plus-byte', w + b'x'))
        cands.append(('plus-nul', w + b'\x00'))
        cands.append(('bitflip', w[:-1] + bytes([w[-1] ^ 1])))
        cands.append(('bitflip-first', bytes([w[0] ^ 0x80 or 1]) + w[1:]))
        cands.append(('swapcase', w.swapcase()))
    if len(stored) >= 2:
        cands.append(('concat', stored[0] + stored[1]))
        cands.append(('concat-rev', stored[1] + stored[0]))
    for w in stored[:3]:
        cands.append(('lead-nul-stored', b'\x00' + w))          # a byte string that is not a stored keyword, one NUL away from one
    cands.append(('lead-nul-random', b'\x00' + bytes([g.randrange(1, 256)]) + g.randbytes(3)))
    cands.append(('random', bytes([g.randrange(1, 256)]) + g.randbytes(5)))
    cands.append(('maxlen', bytes([g.randrange(1, 256)]) + g.randbytes(kwlimit - 1)))
    cands.append(('single', bytes([g.randrange(1, 256)])))
    cands.append(('empty', b''))
    out, seen = [], set(stored)
    for tag, w in cands:
        if (tag in ('empty', 'lead-nul-stored', 'lead-nul-random') or (w and w[0] != 0)) and len(w) <= kwlimit and w not in seen:
            seen.add(w)
            out.append((tag, w))
    return out
