"""Engine E2: explicit-state search over a real stateful object (DESIGN 2/E2).

A *system* provides
    fresh()            -> sut            a brand-new implementation object + reference model (in a fresh scratch directory)
    events(sut)        -> [event, ...]   the alphabet enabled in the sut's current (model) state
    step(sut, ev)      -> [problem, ...] apply ev to implementation AND model, compare the observations; a problem is (kind, site, expected, observed)
    canon(sut)         -> hashable       canonical state (model state + implementation-only state)
    dispose(sut)

State = the history that reaches it: live file objects cannot be copied, so returning to a state means replaying its
(shortest) history on a fresh object.  Events that leave canon unchanged are applied back-to-back on one object; the
object is rebuilt only after an event that changed canon (sound by the same argument that justifies deduplication).
"""
import collections


class Stats:
    def __init__(self):
        self.states = 0
        self.transitions = 0
        self.rebuilds = 0
        self.max_depth = 0
        self.capped = False
        self.histories = 0


def _build(system, hist):
    sut = system.fresh()
    for ev in hist:
        system.step(sut, ev)
    return sut


def bfs(system, on_problem, max_states=200000, max_transitions=None):
    """BFS to fixpoint.  on_problem(history, event, problem) is called for every oracle failure."""
    st = Stats()
    sut = system.fresh()
    c0 = system.canon(sut)
    system.dispose(sut)
    seen = {c0: ()}
    queue = collections.deque([c0])
    while queue:
        c = queue.popleft()
        hist = seen[c]
        st.max_depth = max(st.max_depth, len(hist))
        sut = _build(system, hist)
        st.rebuilds += 1
        evs = system.events(sut)
        for ev in evs:
            probs = system.step(sut, ev)
            st.transitions += 1
            for p in probs:
                on_problem(list(hist), ev, p)
            c2 = system.canon(sut)
            if c2 != c:
                # the object is about to be thrown away: a complete (state-perturbing) comparison with the model is free here.
                # It closes the gap that canon is built from the MODEL's contents: an implementation that silently diverged
                # on this transition is caught now instead of only when some later history happens to read the item.
                if hasattr(system, 'post_check'):
                    for p in system.post_check(sut, ev):
                        on_problem(list(hist), ev, p)
                if c2 not in seen:
                    if len(seen) >= max_states:
                        st.capped = True
                    else:
                        seen[c2] = hist + (ev,)
                        queue.append(c2)
                system.dispose(sut)
                sut = _build(system, hist)
                st.rebuilds += 1
            elif getattr(sut, 'must_rebuild', False):
                # the step's own oracle perturbed implementation-only state (e.g. a full read-back after a refused operation
                # opened every chunk file): do not continue from a state the history alone would not have produced
                system.dispose(sut)
                sut = _build(system, hist)
                st.rebuilds += 1
            if max_transitions and st.transitions >= max_transitions:
                st.capped = True
                queue.clear()
                break
        system.dispose(sut)
    st.states = len(seen)
    return st, seen


def dfs_all(system, alphabet, depth, on_problem):
    """every history of length <= depth over a fixed (reduced) alphabet, no deduplication at all"""
    st = Stats()

    def rec(hist):
        if len(hist) == depth:
            return
        for ev in alphabet:
            sut = _build(system, hist)
            st.rebuilds += 1
            if ev in system.events(sut) or getattr(system, 'dfs_any_event', False):
                probs = system.step(sut, ev)
                st.transitions += 1
                st.histories += 1
                for p in probs:
                    on_problem(list(hist), ev, p)
                if hasattr(system, 'post_check'):
                    for p in system.post_check(sut, ev):
                        on_problem(list(hist), ev, p)
                system.dispose(sut)
                rec(hist + (ev,))
            else:
                system.dispose(sut)
    rec(())
    st.max_depth = depth
    return st
