"""Confirm a candidate seeded change produced in a scratch worktree and file it under /verif/seeded/.

    /venv/bin/python -m mc.confirm /tmp/wt/C05 A [--tests auto|full|none] [--checks C05,C01]

Steps (all in the scratch worktree, never in /repo): worktree clean -> demo exits 0; apply out/<X>/patch.diff -> demo exits 1;
the repository's tests that exercise the touched files pass; run the property's check (quick) against the patched worktree via
VERIF_REPO; revert.  On success copies patch.diff, demo.py, meta.json (extended with what was run) to seeded/<prop>-<X>/."""
import os, sys, json, subprocess, shutil, re, time

VERIF = os.path.dirname(os.path.dirname(os.path.abspath(__file__)))


def sh(cmd, cwd=None, env=None, timeout=7200):
    p = subprocess.run(cmd, cwd=cwd, env=env, capture_output=True, text=True, timeout=timeout)
    return p.returncode, p.stdout + p.stderr


def tests_for(files):
    t = set()
    for f in files:
        m = re.match(r'schemes/(\w+)/(\w+)/', f)
        if m:
            t.add('test/test_sse_schemes/test_%s_%s.py' % (m.group(1), m.group(2)))
        elif f.startswith('schemes/'):
            t.add('test/test_sse_schemes')
        elif f.startswith('toolkit/bits') or f.startswith('toolkit/symmetric_encryption/fpe') or f.startswith('toolkit/prp'):
            t.update(['test/test_bits.py', 'test/test_fpe.py', 'test/test_sse_schemes/test_CGKO06_SSE1.py', 'test/test_sse_schemes/test_CGKO06_SSE2.py'])
        elif f.startswith('toolkit/database_utils') or f.startswith('toolkit/bytes_utils') or f.startswith('toolkit/list_utils'):
            t.update(['test/test_database_utils.py', 'test/test_sse_schemes'])
        elif f.startswith('toolkit/'):
            t.add('test')
        elif f.startswith('data_persistence/persistent_array') or f.startswith('data_persistence/interfaces'):
            t.update(['test/test_persistent_array.py', 'test/test_persistent_dict.py'])
        elif f.startswith('data_persistence/'):
            t.add('test/test_persistent_dict.py')
    return sorted(t)


def main(argv):
    wt, x = argv[0], argv[1]
    tests_mode, checks, store_as = 'auto', None, None
    out_override = None
    it = iter(argv[2:])
    for a in it:
        if a == '--tests':
            tests_mode = next(it)
        elif a == '--checks':
            checks = next(it).split(',')
        elif a == '--as':
            store_as = next(it)
        elif a == '--out':
            out_override = next(it)
    out = out_override or os.path.join(wt, 'out', x)
    meta = json.load(open(os.path.join(out, 'meta.json')))
    prop = meta['property']
    checks = checks or [prop]
    env = dict(os.environ, PYTHONDONTWRITEBYTECODE='1')
    rc, st = sh(['git', '-C', wt, 'status', '--porcelain', '--untracked-files=no'])
    if st.strip():
        print('worktree not clean:', st); return 2
    rc0, o0 = sh(['/venv/bin/python', os.path.join(out, 'demo.py')], cwd=wt, env=env, timeout=1800)
    print('demo on clean tree: rc=%d' % rc0)
    rc, o = sh(['git', '-C', wt, 'apply', os.path.join(out, 'patch.diff')])
    if rc:
        print('patch does not apply', o); return 2
    report = {'demo_clean_rc': rc0}
    try:
        rc, files = sh(['git', '-C', wt, 'diff', '--name-only'])
        files = files.split()
        report['files'] = files
        rc1, o1 = sh(['/venv/bin/python', os.path.join(out, 'demo.py')], cwd=wt, env=env, timeout=1800)
        print('demo with patch: rc=%d  %s' % (rc1, o1.strip().splitlines()[-1][:200] if o1.strip() else ''))
        report['demo_patched_rc'] = rc1
        tests = [] if tests_mode == 'none' else (['test'] if tests_mode == 'full' else tests_for(files))
        if tests:
            t0 = time.time()
            rc, o = sh(['/venv/bin/python', '-m', 'pytest', '-q', '-p', 'no:cacheprovider', '--timeout=900', '-x', '--deselect', 'test/test_persistent_dict.py::TestDBMDict'] + tests,
                       cwd=wt, env=env, timeout=3600)
            tail = o.strip().splitlines()[-1] if o.strip() else ''
            print('tests %s: rc=%d %s (%.0fs)' % (tests, rc, tail, time.time() - t0))
            report['tests'] = {'cmd': 'pytest -q --deselect test/test_persistent_dict.py::TestDBMDict ' + ' '.join(tests), 'rc': rc, 'tail': tail}
        else:
            report['tests'] = {'cmd': 'none (no test module exercises %s)' % files, 'rc': 0, 'tail': ''}
        report['checks'] = {}
        for chk in checks:
            t0 = time.time()
            rc, o = sh([os.path.join(VERIF, 'check'), chk, 'quick'],
                       env=dict(os.environ, VERIF_REPO=wt, VERIF_NO_CONFIRM='1', VERIF_NO_EVIDENCE='1'), timeout=7200)
            sigs = [l.split('signature=')[1].split(' ')[0] for l in o.splitlines() if l.strip().startswith('signature=')]
            verdict = 'DETECTED' if rc == 1 and 'VIOLATION property=%s' % chk in o else 'silent' if rc == 0 else 'rc=%d' % rc
            print('check %s quick: %s (%.0fs) %s' % (chk, verdict, time.time() - t0, sigs[:4]))
            if verdict.startswith('rc='):
                print(o[-1500:])
            report['checks'][chk] = {'verdict': verdict, 'signatures': sigs[:6]}
    finally:
        sh(['git', '-C', wt, 'checkout', '--', '.'])
    ok = report['demo_clean_rc'] == 0 and report.get('demo_patched_rc') not in (0, None) and report['tests']['rc'] == 0
    print('confirmed:', ok)
    if ok:
        dst = os.path.join(VERIF, 'seeded', '%s-%s' % (prop, store_as or x))
        os.makedirs(dst, exist_ok=True)
        shutil.copy(os.path.join(out, 'patch.diff'), dst)
        shutil.copy(os.path.join(out, 'demo.py'), dst)
        meta['confirmed'] = {'demo': 'exit %d on the clean worktree, exit %d with the patch' % (report['demo_clean_rc'], report['demo_patched_rc']),
                             'tests': report['tests'], 'files': report['files']}
        meta['checks'] = report['checks']
        json.dump(meta, open(os.path.join(dst, 'meta.json'), 'w'), indent=1)
    return 0 if ok else 1


if __name__ == '__main__':
    sys.exit(main(sys.argv[1:]))
