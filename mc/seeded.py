"""Detection demonstrations: run the checks against the seeded changes kept under /verif/seeded/<id>/.

    /venv/bin/python -m mc.seeded [id ...] [--tier quick] [--all-checks] [--seeds 0,1]

Each seeded/<id>/ holds patch.diff (against /repo's HEAD), demo.py (exits 1 with the patch, 0 without) and meta.json
({"property": "Cxx", ...}).  The patch is applied to a scratch worktree outside /repo and /verif (never to /repo
itself here), the demonstration and the property's check are run against it through VERIF_REPO, and the worktree is
removed afterwards.  Prints one line per (seeded change, check) and a summary table."""
import os, sys, json, subprocess, shutil, tempfile, time

VERIF = os.path.dirname(os.path.dirname(os.path.abspath(__file__)))
SEEDED = os.path.join(VERIF, 'seeded')


def sh(cmd, cwd=None, env=None, timeout=3600):
    p = subprocess.run(cmd, cwd=cwd, env=env, capture_output=True, text=True, timeout=timeout)
    return p.returncode, p.stdout + p.stderr


def main(argv):
    ids, tier, all_checks, seeds = [], 'quick', False, ['0']
    it = iter(argv)
    for a in it:
        if a == '--tier':
            tier = next(it)
        elif a == '--all-checks':
            all_checks = True
        elif a == '--seeds':
            seeds = next(it).split(',')
        else:
            ids.append(a)
    if not ids:
        ids = sorted(d for d in os.listdir(SEEDED) if os.path.isfile(os.path.join(SEEDED, d, 'patch.diff')))
    wt = tempfile.mkdtemp(prefix='ssepy-seeded-', dir='/dev/shm')
    os.rmdir(wt)
    rc, out = sh(['git', '-C', '/repo', 'worktree', 'add', '--detach', wt, 'HEAD'])
    if rc:
        print(out); return 2
    rows = []
    try:
        for sid in ids:
            d = os.path.join(SEEDED, sid)
            meta = json.load(open(os.path.join(d, 'meta.json')))
            prop = meta['property']
            rc, out = sh(['git', '-C', wt, 'apply', os.path.join(d, 'patch.diff')])
            if rc:
                print('%s: patch does not apply: %s' % (sid, out.strip()[:200]))
                rows.append((sid, prop, 'PATCH-FAILS', ''))
                sh(['git', '-C', wt, 'checkout', '--', '.'])
                continue
            demo = ''
            if os.path.exists(os.path.join(d, 'demo.py')):
                rc, out = sh(['/venv/bin/python', os.path.join(d, 'demo.py')], cwd=wt, env=dict(os.environ, PYTHONDONTWRITEBYTECODE='1'), timeout=900)
                demo = 'demo-fails' if rc else 'DEMO-PASSES(!)'
            checks = [prop] + [c for c in meta.get('also_detected_by', []) if c != prop]
            if all_checks:
                checks = ['C%02d' % i for i in range(1, 21)]
            for chk in checks:
                for seed in seeds:
                    t0 = time.time()
                    rc, out = sh([os.path.join(VERIF, 'check'), chk, tier],
                                 env=dict(os.environ, VERIF_REPO=wt, VERIF_SEED=seed, VERIF_NO_CONFIRM='1', VERIF_NO_EVIDENCE='1'), timeout=7200)
                    sigs = [l.split('signature=')[1].split(' ')[0] for l in out.splitlines() if l.strip().startswith('signature=')]
                    verdict = 'DETECTED' if rc == 1 and 'VIOLATION property=%s' % chk in out else ('silent' if rc == 0 else 'rc=%d' % rc)
                    print('%-28s %s seed=%s %-9s %s %5.1fs %s' % (sid, chk, seed, verdict, demo, time.time() - t0, ' '.join(sigs[:2])))
                    sys.stdout.flush()
                    rows.append((sid, chk, verdict, sigs[:3]))
            sh(['git', '-C', wt, 'checkout', '--', '.'])
            sh(['git', '-C', wt, 'clean', '-fdq'])
    finally:
        sh(['git', '-C', '/repo', 'worktree', 'remove', '--force', wt])
        shutil.rmtree(wt, ignore_errors=True)
    missed = [r for r in rows if r[2] != 'DETECTED']
    print('summary: %d runs, %d detected, %d not' % (len(rows), len(rows) - len(missed), len(missed)))
    return 0


if __name__ == '__main__':
    sys.exit(main(sys.argv[1:]))
