"""Binding the environment models to reality (DESIGN 3.5).

* transport model (E3): histories explored on the virtual network are re-run against the real handler served by
  `websockets.serve(handler, '127.0.0.1', 0)` over real loopback TCP in real time; the abstract observation sequence
  (init-echo state, acknowledged / refused-or-closed / result bytes / nothing) must be the one the virtual run produced.
  The TCP run is guided by the virtual observation: where the virtual run saw a reply it waits up to 20 s for it, where it
  saw nothing it waits 0.3 s and requires silence - so a slow machine cannot produce a spurious disagreement.
* crash-FS model (E4): for every mutation of the client-side persisting handlers that need no network (create, genkey,
  encrypt) the directory tree left by the interposer's virtual kill is compared with the tree left by a child process that
  runs the same handler under the same DRBG and really SIGKILLs itself at the same mutation.
"""
import asyncio, os, pickle, sys, time, json, subprocess, hashlib, copy, itertools
from mc import core, det, fe


# ------------------------------------------------------------------------------------------------ C10 histories over TCP
async def _tcp_history(fx, events, virtual_obs, sid):
    m = fe.mods()
    ws_mod = m['websockets']
    m['connector']._sse_service_manager = m['smgr'].ServicesManager()
    obs = []
    async with ws_mod.serve(m['connector'].handler, '127.0.0.1', 0, max_size=None) as srv:
        port = srv.sockets[0].getsockname()[1]
        state = {'ws': None, 'inbox': [], 'closed': True, 'reader': None}

        async def reader(ws, box):
            try:
                async for raw in ws:
                    box['inbox'].append(pickle.loads(raw))
            except Exception:
                pass
            box['closed'] = True

        async def connect():
            ws = await ws_mod.connect('ws://127.0.0.1:%d' % port, max_size=None)
            await ws.send(pickle.dumps({'type': 'init', 'sid': sid}))
            box = {'ws': ws, 'inbox': [], 'closed': False}
            box['reader'] = asyncio.ensure_future(reader(ws, box))
            return box

        async def wait_for(box, pred, timeout):
            t0 = time.time()
            while time.time() - t0 < timeout:
                if pred():
                    return True
                await asyncio.sleep(0.005)
            return pred()

        def app_msgs(box, start):
            return [x for x in box['inbox'][start:] if x.get('type') != 'control']

        box = await connect()
        await wait_for(box, lambda: app_msgs(box, 0) or box['closed'], 20)
        cursor = len(box['inbox'])
        for ev, vobs in zip(events, virtual_obs):
            if ev.startswith('reconnect'):
                if not box['closed']:
                    await box['ws'].close()
                if ev.endswith('after-cleanup'):
                    await asyncio.sleep(1.3)
                box = await connect()
                await wait_for(box, lambda: app_msgs(box, 0) or box['closed'], 20)
                msgs = app_msgs(box, 0)
                cursor = len(box['inbox'])
                if msgs and msgs[0].get('type') == 'init':
                    obs.append(('init', pickle.loads(msgs[0]['content']).get('state')))
                else:
                    obs.append(('no-init',))
                continue
            from mc.checks import c10 as _c10
            for d in _c10.messages_for(fx, sid, ev):
                try:
                    await box['ws'].send(pickle.dumps(d))
                except Exception:
                    pass
            start = cursor
            if vobs[0] == 'nothing':
                await asyncio.sleep(0.3)
            else:
                await wait_for(box, lambda: app_msgs(box, start) or box['closed'], 20)
                await asyncio.sleep(0.02)
            msgs = app_msgs(box, start)
            cursor = len(box['inbox'])
            acked, refused, result = False, False, None
            for x in msgs:
                if x.get('type') == 'result':
                    try:
                        c = pickle.loads(x['content'])
                    except Exception:
                        c = None
                    if isinstance(c, dict) and c.get('ok') is False:
                        refused = True
                    else:
                        acked, result = True, fx.decode_result(x['content'])
                else:
                    c = pickle.loads(x['content'])
                    if c.get('ok'):
                        acked = True
                    else:
                        refused = True
            if acked and result is not None:
                obs.append(('result', result))
            elif acked:
                obs.append(('ack',))
            elif refused or box['closed']:
                obs.append(('refused-or-closed',))
            else:
                obs.append(('nothing',))
        if not box['closed']:
            await box['ws'].close()
        await asyncio.sleep(0.05)
    return obs


def virtual_observations(system, events):
    s = system.fresh()
    out = []
    try:
        for ev in events:
            if ev not in system.events(s):
                return None
            system.step(s, ev)
            out.append(tuple(s.obs))
    finally:
        system.dispose(s)
    return out


def replay_c10_histories(seed, histories):
    """returns (n_replayed, disagreements) ; runs in the calling (worker) process"""
    from mc.checks import c10
    import shutil
    system = c10.ServerSystem(seed)
    fx = system.fx
    n, bad = 0, []
    for h in histories:
        vobs = virtual_observations(system, h)
        if vobs is None:
            continue
        # the only real-time dependent step of the whole machinery: a disagreement must show in three consecutive replays (each
        # on a fresh service id) before it is reported, so that a starved machine cannot raise an alarm; a wrong server is wrong
        # every time
        attempts = []
        for attempt in range(3):
            sid = fe.new_sid('tcp')
            try:
                try:
                    tobs = asyncio.run(asyncio.wait_for(_tcp_history(fx, h, vobs, sid), 60 * (attempt + 1)))
                except asyncio.TimeoutError:
                    tobs = [('tcp-replay-timed-out',)]
            finally:
                shutil.rmtree(str(fe.mods()['sfm']._PROGRAM_PATH.joinpath(sid)), ignore_errors=True)
            attempts.append(tobs)
            if [tuple(o) for o in tobs] == [tuple(o) for o in vobs]:
                break
        n += 1
        if [tuple(o) for o in tobs] != [tuple(o) for o in vobs]:
            bad.append({'history': list(h), 'virtual': vobs, 'tcp': tobs, 'attempts': len(attempts)})
    return n, bad


# ------------------------------------------------------------------------------------------------ C09 workflow over TCP
async def _tcp_workflow(name, cfg, jdb, bits):
    from toolkit.database_utils import convert_database_keyword_to_bytes
    m = fe.mods()
    ws_mod = m['websockets']
    Service = m['cservice'].Service
    m['connector']._sse_service_manager = m['smgr'].ServicesManager()
    out = {}
    async with ws_mod.serve(m['connector'].handler, '127.0.0.1', 0, max_size=None) as srv:
        port = srv.sockets[0].getsockname()[1]
        m['global_config'].ClientConfig.SERVER_URI = 'ws://127.0.0.1:%d' % port
        try:
            svc = Service()
            sid = svc.handle_create_config(copy.deepcopy(cfg))
            out['sid'] = sid

            async def nxt(i, svc):
                if bits[i]:
                    await svc.close_service()
                    return Service(sid)
                return svc
            svc = await nxt(0, svc)
            svc.handle_create_key()
            svc = await nxt(1, svc)
            svc.handle_encrypt_database(convert_database_keyword_to_bytes(jdb))
            svc = await nxt(2, svc)
            await svc.handle_upload_config(wait=True, wait_callback_func=lambda f: None)
            svc = await nxt(3, svc)
            await svc.handle_upload_encrypted_database(wait=True, wait_callback_func=lambda f: None)
            for rnd in (4, 5):
                svc = await nxt(rnd, svc)
                for kw in list(jdb) + ['absent-keyword']:
                    got = []
                    await svc.handle_keyword_search(bytes(kw, 'utf-8'), wait=True, wait_callback_func=lambda f: got.append(f.result()))
                    res = svc.sse_module_loader.SSEResult.deserialize(got[0], svc.config_object).get_result_list()
                    out[(rnd, kw)] = res
            await svc.close_service()
        finally:
            m['global_config'].ClientConfig.SERVER_URI = 'ws://h:1'
        await asyncio.sleep(0.05)
    return out


def replay_c09_workflows(seed, cases):
    """cases: list of (scheme, dbi, bits). Returns (n, disagreements): the TCP run must deliver the correct results the
    virtual run delivered."""
    from mc.checks import c09
    from mc import sse
    from toolkit.database_utils import convert_database_keyword_to_bytes
    import shutil
    n, bad = 0, []
    for name, dbi, bits in cases:
        det.seed_case(seed, 'C09-tcp', name, dbi)
        jdb = c09.json_dbs()[dbi]
        bdb = convert_database_keyword_to_bytes(jdb)
        cfg = sse.finalize_cfg(name, c09.wf_cfg(name), bdb)
        # real time: a failure must show in three consecutive attempts before it is reported (see replay_c10_histories)
        for attempt in range(3):
            this = []
            try:
                out = asyncio.run(asyncio.wait_for(_tcp_workflow(name, cfg, jdb, bits), 45 * (attempt + 1)))     # real seconds: bounded
            except Exception as e:
                this.append({'scheme': name, 'db': dbi, 'bits': bits, 'tcp_error': core.exc_text(e), 'attempts': attempt + 1})
                out = {}
            finally:
                det.restore()
            for (rnd, kw), res in [(k, v) for k, v in out.items() if k != 'sid']:
                if not sse.result_ok(name, res, bdb.get(bytes(kw, 'utf-8'), [])):
                    this.append({'scheme': name, 'db': dbi, 'bits': bits, 'keyword': kw, 'tcp_result': res, 'attempts': attempt + 1})
            sid = out.get('sid')
            if sid:
                shutil.rmtree(str(fe.mods()['sfm']._PROGRAM_PATH.joinpath(sid)), ignore_errors=True)
                shutil.rmtree(str(fe.mods()['cfm']._PROGRAM_PATH.joinpath(sid)), ignore_errors=True)
            if not this:
                break
            det.seed_case(seed, 'C09-tcp', name, dbi)
        n += 1
        bad.extend(this)
    return n, bad


# ------------------------------------------------------------------------------------------------ SIGKILL replays
CHILD = r'''
import os, sys, json, signal, builtins, io, copy
home, repo, verif, seed, scheme, dbsize, step, k, when = sys.argv[1:10]
os.environ['HOME'] = home
sys.path.insert(0, repo); sys.path.insert(0, verif)
import logging; logging.disable(logging.CRITICAL)
from mc import det, sse, crashfs, vnet
from mc.checks import c13
seed, k = int(seed), int(k)
det._state['home'] = home; det._state['pid'] = os.getpid()
db = c13.make_db(seed, dbsize)
cfg = sse.base_cfg(scheme); cfg['param_identifier_size'] = 8
cfg = sse.finalize_cfg(scheme, cfg, db)
det.seed_case(seed, 'C13', scheme, dbsize)
import frontend.client.services.service as cservice

class RealKillLoop:
    dead = {}
    def kill(self, comp):
        os.kill(os.getpid(), signal.SIGKILL)

fs = crashfs.CrashFS(RealKillLoop(), os.path.join(home, '.sse'))
fs.install()
steps = ['create', 'genkey', 'encrypt']
sid = ''
for i, st in enumerate(steps):
    tok = vnet.COMPONENT.set('client#%d' % (i + 1))
    if st == step:
        fs.arm = ('client#%d' % (i + 1), k, when)
    if st == 'create':
        svc = cservice.Service(); sid = svc.handle_create_config(copy.deepcopy(cfg))
    elif st == 'genkey':
        cservice.Service(sid).handle_create_key()
    else:
        cservice.Service(sid).handle_encrypt_database(copy.deepcopy(db))
    vnet.COMPONENT.reset(tok)
    if st == step:
        break
print('NOT-KILLED')
'''


def tree(root):
    out = {}
    for dp, dn, fn in os.walk(root):
        for f in fn:
            p = os.path.join(dp, f)
            with open(p, 'rb') as fh:
                out[os.path.relpath(p, root)] = hashlib.sha256(fh.read()).hexdigest()[:16] + ':%d' % os.path.getsize(p)
        for d in dn:
            out[os.path.relpath(os.path.join(dp, d), root) + '/'] = 'dir'
    return out


def sigkill_replays(seed, scheme, dbsize, points):
    """points: crash points (dicts of c13.crash_points) of client components in steps create/genkey/encrypt"""
    from mc.checks import c13
    import shutil, tempfile
    n, bad = 0, []
    for pt in points:
        # virtual crash
        run = c13.Run(seed, scheme, dbsize, arm=(pt['component'], pt['k'], pt['when']))
        try:
            run.w.start_server()
            for st in ('create', 'genkey', 'encrypt'):
                run.cli(st)
                if run.fs.crashed:
                    break
            vtree = tree(str(run.m['cfm']._PROGRAM_PATH))
        finally:
            run.close()
        # real SIGKILL in a child process
        home = tempfile.mkdtemp(prefix='sigkill-', dir=os.environ['HOME'])
        try:
            p = subprocess.run(['/venv/bin/python', '-B', '-c', CHILD, home, core.REPO, core.VERIF, str(seed), scheme, dbsize, pt['step'], str(pt['k']), pt['when']],
                               capture_output=True, text=True, env=dict(os.environ, PYTHONHASHSEED='0'), timeout=300)
            killed = p.returncode == -9
            rtree = tree(os.path.join(home, '.sse', 'client')) if os.path.isdir(os.path.join(home, '.sse', 'client')) else {}
        finally:
            shutil.rmtree(home, ignore_errors=True)
        n += 1
        if not killed:
            bad.append({'point': pt, 'problem': 'child was not killed (rc=%s): %s' % (p.returncode, (p.stdout + p.stderr)[-300:])})
        elif rtree != vtree:
            bad.append({'point': pt, 'virtual_tree': vtree, 'sigkill_tree': rtree})
    return n, bad
