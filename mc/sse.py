"""Generic driver for the nine schemes: configuration grids, validity domain, case runner, EDB walker."""
import os, copy, json, math, pickle, itertools
from mc import domains

SCHEMES = ['CJJ14.PiBas', 'CJJ14.PiPack', 'CJJ14.PiPtr', 'CJJ14.Pi2Lev', 'CT14.Pi', 'ANSS16.Scheme3', 'DP17.Pi',
           'CGKO06.SSE1', 'CGKO06.SSE2']
SET_RESULT = {'DP17.Pi'}


def loader(name):
    import schemes
    return schemes.load_sse_module(name)


def default_cfg(name):
    return copy.deepcopy(loader(name).SSEConfig.get_default_config())


# small base points: every width differs from the defaults where the code allows it, so that a parser that
# reads the wrong config field is exposed; executions cost 0.5-10 ms
BASE = {
    'CJJ14.PiBas': dict(param_lambda=16, prf_f_output_length=16),
    'CJJ14.PiPack': dict(param_lambda=16, prf_f_output_length=16, param_B=2, param_identifier_size=4),
    'CJJ14.PiPtr': dict(param_lambda=16, prf_f_output_length=16, param_B=2, param_b=2, param_identifier_size=4),
    'CJJ14.Pi2Lev': dict(param_lambda=16, prf_f_output_length=16, param_B=2, param_b=2, param_B_prime=2, param_b_prime=2,
                         param_identifier_size=4),
    'CT14.Pi': dict(param_k=16, param_k_prime=16, param_l=16, param_identifier_size=4),
    'ANSS16.Scheme3': dict(param_lambda=16, param_k=16, param_k_prime=16, param_l=16, param_l_prime=16, param_identifier_size=4),
    'DP17.Pi': dict(param_lambda=16, param_actual_storage_level_ratio=0.2, param_L=1, param_identifier_size=8),
    'CGKO06.SSE1': dict(param_k=16, param_l=8, param_s=64, param_dictionary_size=8, param_identifier_size=8),
    'CGKO06.SSE2': dict(param_k=16, param_l=8, param_max_file_size=64, param_identifier_size=8, param_n=1),
}


def base_cfg(name, **over):
    c = default_cfg(name)
    c.update(BASE[name])
    c.update(over)
    return c


def key_dep(name, lam):
    """fields that have to follow the key width for the scheme to be in its supported grid"""
    if name.startswith('CJJ14'):
        return dict(param_lambda=lam, prf_f_output_length=lam)
    if name == 'CT14.Pi':
        return dict(param_k=lam)
    if name == 'ANSS16.Scheme3':
        return dict(param_k=lam, param_k_prime=lam)
    if name == 'DP17.Pi':
        return dict(param_lambda=lam)
    return dict(param_k=lam)


def covering_rows(axes):
    """deterministic greedy covering array of strength 2 over the non-base values of the axes; a row is a list of (axis, value index)"""
    names = list(axes)
    todo = set()
    for a, b in itertools.combinations(names, 2):
        for i in range(len(axes[a])):
            for j in range(len(axes[b])):
                todo.add(((a, i), (b, j)))
    rows = []
    while todo:
        # start from the first uncovered pair, then extend axis by axis with the value that covers most uncovered pairs
        first = min(todo, key=lambda pr: (names.index(pr[0][0]), pr[0][1], names.index(pr[1][0]), pr[1][1]))
        row = dict([first[0], first[1]])
        for ax in names:
            if ax in row:
                continue
            best, bestn = 0, -1
            for k in range(len(axes[ax])):
                n = sum(1 for a2, k2 in row.items()
                        if ((a2, k2), (ax, k)) in todo or ((ax, k), (a2, k2)) in todo)
                if n > bestn:
                    best, bestn = k, n
            row[ax] = best
        ordered = [(ax, row[ax]) for ax in names]
        for x, y in itertools.combinations(ordered, 2):
            todo.discard((x, y))
        rows.append(ordered)
    return rows


def grid(name, tier):
    """G(S): list of (label, config dict).  quick: default point, base point and all single-parameter
    departures from the base point; thorough: additionally the pairwise products."""
    pts = []

    def add(label, cfg):
        pts.append((label, cfg))

    add('base', base_cfg(name))
    if name not in ('CGKO06.SSE1',):
        add('default', default_cfg(name))
    else:
        add('default-s256', dict(default_cfg(name), param_s=256, param_dictionary_size=16))
    axes = {}
    axes['key'] = [key_dep(name, v) for v in (24, 32)]
    if name in ('CJJ14.PiPack', 'CJJ14.PiPtr'):
        axes['B'] = [dict(param_B=v) for v in (1, 3, 64)]
        axes['id'] = [dict(param_identifier_size=v) for v in (1, 8, 16)]
    if name == 'CJJ14.PiPtr':
        axes['b'] = [dict(param_b=v) for v in (1, 3, 64)]
    if name == 'CJJ14.Pi2Lev':
        axes['quad'] = [dict(param_B=2, param_B_prime=2, param_b=1, param_b_prime=1),
                        dict(param_B=2, param_b=2, param_B_prime=4, param_b_prime=4),
                        dict(param_B=3, param_b=3, param_B_prime=3, param_b_prime=3),
                        dict(param_B=4, param_b=2, param_B_prime=2, param_b_prime=1, param_identifier_size=2),
                        dict(param_B=3, param_b=3, param_B_prime=2, param_b_prime=2, param_identifier_size=3),
                        dict(param_B=1, param_b=1, param_B_prime=1, param_b_prime=1, param_identifier_size=2),
                        # misaligned widths: B*id = 15 is not a multiple of B' and 1+15 sits on the AES block boundary, so a
                        # block padded to B'*index_size (14) instead of B*id (15) changes the ciphertext length
                        dict(param_B=3, param_b=3, param_B_prime=2, param_b_prime=2, param_identifier_size=5)]
        axes['id'] = [dict(param_identifier_size=v) for v in (8, 16)]
    if name == 'CT14.Pi':
        axes['kprime'] = [dict(param_k_prime=v) for v in (24, 32)]
        axes['l'] = [dict(param_l=v) for v in (8, 20, 32)]
        axes['id'] = [dict(param_identifier_size=v) for v in (1, 8, 16)]
    if name == 'ANSS16.Scheme3':
        axes['lambda'] = [dict(param_lambda=v) for v in (8, 24, 32)]
        axes['l'] = [dict(param_l=v) for v in (8, 32)]
        axes['lprime'] = [dict(param_l_prime=v) for v in (8, 32)]
        axes['id'] = [dict(param_identifier_size=v) for v in (1, 8, 16)]
    if name == 'DP17.Pi':
        axes['L'] = [dict(param_L=v) for v in (2, 3)]
        axes['ratio'] = [dict(param_actual_storage_level_ratio=v) for v in (0.5, 1.0)]
        axes['hash'] = [dict(hash_h=v) for v in ('sha256', 'md5')]
        axes['id'] = [dict(param_identifier_size=v) for v in (1, 4, 16)]
    if name == 'CGKO06.SSE1':
        axes['s'] = [dict(param_s=v) for v in (16, 256, 512)]
        axes['l'] = [dict(param_l=v) for v in (4, 32, 64)]     # 64: PRP halves of 256 bits, wider than one SHA-1 digest
        axes['dict'] = [dict(param_dictionary_size=v) for v in (16, 64)]
        axes['id'] = [dict(param_identifier_size=v) for v in (1, 4, 16)]
    if name == 'CGKO06.SSE2':
        axes['l'] = [dict(param_l=v) for v in (4, 32, 64)]
        axes['nx'] = [dict(_n_extra=3)]                         # param_n as an upper bound on the number of files
        axes['max'] = [dict(param_max_file_size=v) for v in (1, 300, 2 ** 20)]
        axes['id'] = [dict(param_identifier_size=v) for v in (1, 4, 16)]
    for ax, vals in axes.items():
        for i, v in enumerate(vals):
            add('%s%d' % (ax, i), base_cfg(name, **v))
    if tier != 'thorough' and name == 'DP17.Pi':
        # the one pair of axes whose interplay selects code no single departure reaches: with every level stored (ratio 1.0) and
        # L > 1 a list is cut into 2..L chunks of 2^i with a shorter last chunk
        for i, va in enumerate(axes['L']):
            for j, vb in enumerate(axes['ratio']):
                add('L%d+ratio%d' % (i, j), base_cfg(name, **dict(va, **vb)))
    if tier != 'thorough' and os.environ.get('VERIF_NO_COVERING') != '1':
        # strength-2 covering rows: every pair of departures on two different axes occurs together in at least one row (the rows depart
        # on all axes at once, so they also reach combinations of three and more that the pairwise products of the thorough tier do not)
        for i, row in enumerate(covering_rows(axes)):
            over = {}
            for ax, k in row:
                over.update(axes[ax][k])
            add('ca%d[%s]' % (i, '+'.join('%s%d' % (ax, k) for ax, k in row)), base_cfg(name, **over))
    if tier == 'thorough':
        names = list(axes)
        for a, b in itertools.combinations(names, 2):
            for i, va in enumerate(axes[a]):
                for j, vb in enumerate(axes[b]):
                    add('%s%d+%s%d' % (a, i, b, j), base_cfg(name, **dict(va, **vb)))
    return pts


def kw_limit(name, cfg):
    if name in ('CGKO06.SSE1', 'CGKO06.SSE2'):
        return cfg['param_l']
    return 5000          # no limit in the library: several KiB, i.e. longer than any hash block or internal buffer


def capacity(name, cfg):
    """largest list length / total size the configuration supports (None = unlimited)"""
    lim = {'max_list': None, 'max_total': None, 'max_keywords': None}
    if name == 'CGKO06.SSE1':
        lim['max_total'] = cfg['param_s'] - 1
        lim['max_keywords'] = cfg['param_dictionary_size']
    if name == 'CJJ14.Pi2Lev':
        lim['max_list'] = cfg['param_B'] * cfg['param_B_prime'] * cfg['param_b_prime'] - 1
    if cfg.get('param_identifier_size') == 1:
        lim['max_list'] = min(lim['max_list'] or 255, 255)
    return lim


def valid_profile(name, cfg, profile):
    lim = capacity(name, cfg)
    if lim['max_list'] is not None and max(profile) > lim['max_list']:
        return False
    if lim['max_total'] is not None and sum(profile) > lim['max_total']:
        return False
    if lim['max_keywords'] is not None and len(profile) > lim['max_keywords']:
        return False
    if name == 'CJJ14.Pi2Lev':
        idx = (cfg['param_B'] * cfg['param_identifier_size']) // cfg['param_B_prime']
        if pi2lev_alen(cfg, profile) > 2 ** (8 * idx):
            return False
    if len(profile) > 255 and False:
        return False
    return True


def pi2lev_alen(cfg, profile):
    B, b, Bp, bp = cfg['param_B'], cfg['param_b'], cfg['param_B_prime'], cfg['param_b_prime']
    A = 1
    for n in profile:
        if n > b:
            A += math.ceil(n / B)
        if n > bp * B:
            A += math.ceil(n / (B * Bp))
    return A


def finalize_cfg(name, cfg, db):
    """fields that by design depend on the database (SSE-2's file count)"""
    if name == 'CGKO06.SSE2':
        files = set()
        for ids in db.values():
            files.update(ids)
        cfg = dict(cfg, param_n=len(files) + cfg.get('_n_extra', 0))
    return cfg


def special_lengths(name, cfg, tier):
    """list lengths the configuration makes special (before the v-1, v, v+1 expansion)"""
    kmax = 9 if tier == 'quick' else 11
    sp = set(2 ** k for k in range(0, kmax + 1))
    B, b = cfg.get('param_B'), cfg.get('param_b')
    if name == 'CJJ14.PiPack':
        sp.update({B, 2 * B, 3 * B})
    if name == 'CJJ14.PiPtr':
        sp.update({B, 2 * B, B * b, 2 * B * b, B * b * 2 + B})
        if B == 1:
            sp.update({254, 255, 256, 257})       # array of 255/256/257 blocks: index width step
    if name == 'CJJ14.Pi2Lev':
        Bp, bp = cfg['param_B_prime'], cfg['param_b_prime']
        sp.update({b, B, B * bp, B * Bp, B * Bp * bp - 1, B * Bp * bp - 2, 2 * B, B * bp + B})
    if name == 'DP17.Pi':
        L = cfg['param_L']
        sp.update(L * 2 ** i for i in range(0, 8))
    if name == 'ANSS16.Scheme3':
        sp.update({255, 256, 257})
    return sorted(x for x in sp if x >= 1)


def pi_param(name, cfg, profile):
    """the scheme's public size parameter pi_S as defined by property C05"""
    N = sum(profile)
    B, b = cfg.get('param_B'), cfg.get('param_b')
    if name == 'CGKO06.SSE1':
        return ()
    if name in ('CGKO06.SSE2', 'CJJ14.PiBas', 'DP17.Pi'):
        return N
    if name == 'CJJ14.PiPack':
        return sum(math.ceil(n / B) for n in profile)
    if name == 'CJJ14.PiPtr':
        return (sum(math.ceil(n / B) for n in profile), sum(math.ceil(math.ceil(n / B) / b) for n in profile))
    if name == 'CJJ14.Pi2Lev':
        return (len(profile), pi2lev_alen(cfg, profile))
    return math.ceil(math.log2(N)) if N > 0 else 0


def cfg_label(cfg):
    return json.dumps({k: v for k, v in sorted(cfg.items()) if k != 'scheme'}, sort_keys=True)


# --------------------------------------------------------------------------- EDB walking
def unpickle_edb(raw):
    """strip the scheme header (everything before the pickle opcode PROTO) and unpickle"""
    i = raw.index(b'\x80')
    while True:
        try:
            return pickle.loads(raw[i:])
        except Exception:
            i = raw.index(b'\x80', i + 1)


def shape(o):
    """generic shape: container type and size, multiset of (key shape, value shape); byte strings by length;
    small ints by value (public level numbers), large ints by type (PRP images)"""
    if isinstance(o, (bytes, bytearray)):
        return ('b', len(o))
    if o is None or isinstance(o, bool):
        return (type(o).__name__,)
    if isinstance(o, int):
        return ('int', o) if 0 <= o < 2 ** 16 else ('bigint',)
    if isinstance(o, dict):
        items = {}
        smallkeys = all(isinstance(k, int) and 0 <= k < 64 for k in o) and len(o) <= 64
        for k, v in o.items():
            ks = ('int', k) if (smallkeys and isinstance(k, int)) else (('bigint',) if isinstance(k, int) else shape(k))
            key = (ks, shape(v))
            items[key] = items.get(key, 0) + 1
        return ('dict', len(o), tuple(sorted(items.items(), key=repr)))
    if isinstance(o, (list, tuple)):
        if len(o) > 8 or isinstance(o, list):
            items = {}
            for x in o:
                s = shape(x)
                items[s] = items.get(s, 0) + 1
            return (type(o).__name__, len(o), tuple(sorted(items.items(), key=repr)))
        return (type(o).__name__, len(o), tuple(shape(x) for x in o))
    if isinstance(o, (set, frozenset)):
        return ('set', len(o))
    return ('other', type(o).__name__)


def walk_tables(o, path='edb'):
    """yield (path, dict) for every dict in the unpickled structure"""
    if isinstance(o, dict):
        yield path, o
        for k, v in o.items():
            if isinstance(v, (dict, list, tuple)):
                yield from walk_tables(v, '%s[%r]' % (path, k if isinstance(k, int) else 'k'))
    elif isinstance(o, (list, tuple)):
        for i, v in enumerate(o):
            if isinstance(v, (dict, list, tuple)):
                yield from walk_tables(v, '%s/%d' % (path, i))


def result_content(name, res):
    got = res.get_result_list()
    return got


def result_ok(name, got, exp):
    if name in SET_RESULT:
        return isinstance(got, (set, frozenset)) and got == set(exp) and len(got) == len(exp)
    return isinstance(got, list) and got == list(exp)


def classify_diff(name, got, exp):
    try:
        g, e = list(got), list(exp)
    except TypeError:
        return 'type'
    if name not in SET_RESULT and not isinstance(got, list):
        return 'type'
    sg, se = set(g), set(e)
    if sg == se and len(g) == len(e):
        return 'order'
    if not g and e:
        return 'empty'
    if sg < se:
        return 'missing'
    if sg > se:
        return 'extra'
    if len(g) == len(e):
        return 'altered'
    return 'missing+extra'


# --------------------------------------------------------------------------- unit helpers shared by E1 checks
def dedup_valid(name, cfg, cases):
    out, seen = [], set()
    for p, kw, rel in cases:
        key = (tuple(p), kw, rel)
        if key in seen or not valid_profile(name, cfg, p):
            continue
        seen.add(key)
        out.append((p, kw, rel))
    return out


def make_units(case_list, tier, chunk, schemes_=None, grid_fn=None):
    us = []
    for name in (schemes_ or SCHEMES):
        for label, cfg in (grid_fn or grid)(name, tier):
            n = len(case_list(name, label, cfg, tier))
            for k in range(0, n, chunk):
                us.append(('%s/%s/%d' % (name, label, k), {'scheme': name, 'label': label, 'cfg': cfg, 'lo': k, 'hi': k + chunk}))
    return us


def build_db(seed, name, label, cfg, profile, kwlen, relation, awkward=True):
    from mc import det
    kwlen = min(kwlen, kw_limit(name, cfg))
    if name == 'CGKO06.SSE2' and relation != 'disjoint':
        # SSE-2's capacity: a file may occur under at most param_max keywords (derived from param_max_file_size); a database in
        # which identifiers are shared by more keywords than that is not valid for the configuration
        from schemes.CGKO06.SSE2.config import determine_param_max
        if determine_param_max(cfg['param_max_file_size']) < len(profile):
            relation = 'disjoint'
    if relation == 'mixed-ids' and 'param_identifier_size' in cfg:
        relation = 'disjoint'                  # only a scheme without an identifier-size parameter (PiBas) takes mixed lengths
    g = det.rng(seed, 'db', name, label, tuple(profile), kwlen, relation)
    db = domains.make_db(profile, cfg.get('param_identifier_size', 8), kwlen, g, relation, awkward)
    return db, finalize_cfg(name, cfg, db), g


def ske_len(msg_len):
    """AES-CBC wrapper: IV + PKCS7-padded message"""
    return 16 + 16 * (msg_len // 16 + 1)


def split(b, n):
    return [b[i:i + n] for i in range(0, len(b), n)]


def cipher_entries(name, cfg, obj):
    """the SKE-ciphertext-bearing (or ciphertext-shaped filler) entries of an unpickled EDB, by position"""
    ids = cfg.get('param_identifier_size', 8)
    out = []
    if name in ('CJJ14.PiBas', 'CJJ14.PiPack'):
        out += list(obj.values())
    elif name in ('CJJ14.PiPtr', 'CJJ14.Pi2Lev'):
        D, A = obj
        out += list(D.values()) + [x for x in A if x is not None]
    elif name == 'CGKO06.SSE1':
        A, T = obj
        out += list(A)
    elif name == 'CGKO06.SSE2':
        pass
    elif name == 'CT14.Pi':
        for i, ht in enumerate(obj):
            for v in ht.values():
                out += split(v, len(v) // (2 ** i))
    elif name == 'ANSS16.Scheme3':
        HT_S, HT_L = obj
        out += list(HT_S.values())
        for i, ht in enumerate(HT_L):
            for v in ht.values():
                out += split(v, len(v) // (2 ** i))
    elif name == 'DP17.Pi':
        HT, A_dict = obj
        cl = ske_len(ids + cfg['param_lambda'])
        for i, buckets in A_dict.items():
            for b in buckets:
                out += split(b, cl)
    # only entries that can be AES-CBC ciphertexts (IV + >= 1 block); shorter fillers are C05's business
    return [e for e in out if isinstance(e, (bytes, bytearray)) and len(e) >= 32 and len(e) % 16 == 0]


def shared_scheme(cache, L, cfg, role='client'):
    """one scheme object per (configuration, role) for a whole work unit: the object is used with many keys and databases
    one after the other, as an application would; state kept in the object across calls (caches) is thereby exercised"""
    key = (role, json.dumps(cfg, sort_keys=True))
    if key not in cache:
        cache[key] = L.SSEScheme(copy.deepcopy(cfg))
    return cache[key]
