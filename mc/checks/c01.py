"""C01 - Search returns exactly the posting list of every stored keyword (engine E1)."""
import copy
from mc import core, det, domains, sse

PROPERTY = 'C01'
ENGINE = 'E1 bounded-exhaustive enumeration of (scheme, configuration point, list-length profile, keyword order, content relation)'
LEVEL = 'model_checking'
DIRECTED_ADDITIONS = 'setups refused part-way by the same scheme object before every fourth case, one list of 1100 / 3000 postings per scheme (Pi2Lev: the longest its configuration admits), many-keyword profiles, KiB keywords, mixed-length identifiers (PiBas), aliased posting lists, empty posting lists (refused or correct), bytes-like keyword objects, constructor styles, rebuild under the same key, per-scheme sweep'      # members added during the seeded-change campaign (DESIGN 7); counted under their own vacuity counters

MAXLEN = {'quick': 4200, 'thorough': 9000}
CHUNK = 60


def describe(tier):
    d = _describe(tier)
    d['rule'] = d['rule'] + ' Directed additions: ' + DIRECTED_ADDITIONS + '.'
    return d


def _describe(tier):
    n = 8 if tier == 'quick' else 12
    return {
        'rule': 'case = (scheme, configuration point of G(S), list-length profile, keyword length, content relation); all 9 schemes x '
                'G(S) (default point, small base point, every single-parameter departure%s) x every integer partition of every N<=%d in '
                'ascending and descending keyword order, plus boundary profiles v-1,v,v+1 (alone and next to a 1-posting keyword) for every '
                'length v the configuration makes special (block multiples, 2^k, index-width steps, Pi2Lev case splits, DP17 level '
                'limits, ANSS16 count-width step); data values come from a DRBG keyed by (seed, case). For every case: KeyGen, EDBSetup, '
                'then TokenGen+Search for EVERY stored keyword; oracle: result == DB[w] as a list (as a set with equal cardinality for '
                'DP17); any exception on a valid database is a violation. non-trivial = case with >= 2 postings.'
                % (', all pairs of departures' if tier != 'quick' else '', n),
        'bounds': 'N<=%d exhaustive over partitions; boundary lengths up to %d' % (n, MAXLEN[tier]),
        'assumptions': ['one DRBG value assignment per shape and seed (data values are outside the enumerated alphabet)',
                        'supported grid: PRF output width = next key width; SSE-1 array size a power of two and N < s; Pi2Lev |DB(w)| < B*B\'*b\''],
        'must_be_nonzero': ['ctor-styles', 'empty-list-database-refused', 'empty-list-database-accepted', 'rebuild-same-key', 'pi2lev-small', 'pi2lev-medium', 'pi2lev-large', 'N=1', 'single-list-2^k', 'dp17-L>1', 'piptr-index-2-bytes', 'long-list-cases', 'refused-setup-first'],
    }


def case_list(name, label, cfg, tier):
    n = 8 if tier == 'quick' else 12
    cases = []
    for p in domains.profiles(n):
        cases.append((p, 6, 'disjoint'))
    for p in domains.profiles(4):
        cases.append((p, 1, 'disjoint'))
        cases.append((p, sse.kw_limit(name, cfg), 'shared'))
    for p in domains.profiles(6, 5):
        cases.append((p, 6, 'shared'))
    if 'param_identifier_size' not in cfg:
        for p in domains.profiles(6):
            cases.append((p, 6, 'mixed-ids'))
    for p in domains.profiles(6):
        if len(set(p)) < len(p):
            cases.append((p, 6, 'aliased'))
    lens = [v for v in domains.around(sse.special_lengths(name, cfg, tier)) if v <= MAXLEN[tier]]
    if label not in ('base', 'default', 'default-s256') and tier == 'quick':
        lens = [v for v in lens if v <= 300]
    if name in ('CGKO06.SSE1', 'CGKO06.SSE2'):      # one bit-level PRP call per posting: keep the long boundary lists short
        lens = [v for v in lens if v <= (130 if tier == 'quick' else 520)]
    for p in domains.boundary_profiles(lens):
        cases.append((p, 6, 'disjoint'))
    for p in [[0, 1], [1, 0], [0, 2, 1], [2, 0], [0], [0, 0, 3], [3, 0, 1, 0]]:
        cases.append((p, 6, 'disjoint'))
    if label in ('base', 'default', 'default-s256'):
        # many keywords rather than long lists: counts around the one-byte boundary, a few hundred postings in dozens of lists
        wide = [[1] * 255, [1] * 256, [1] * 257, [2] * 130, [3] * 100, list(range(1, 31))]
        if tier != 'quick':
            wide += [[1] * 1000, [5] * 300, list(range(1, 64))]
        if name in ('CGKO06.SSE1', 'CGKO06.SSE2'):     # one bit-level PRP call per (keyword, posting) and, for SSE-2, per padding slot
            wide = [[1] * 40, [2] * 20, list(range(1, 9))] if tier == 'quick' else [[1] * 257, [2] * 130, list(range(1, 31))]
        for p in wide:
            cases.append((p, 6, 'disjoint'))
    out, seen = [], set()
    for p, kw, rel in cases:
        key = (tuple(p), kw, rel)
        if key in seen or not sse.valid_profile(name, cfg, p):
            continue
        seen.add(key)
        out.append((p, kw, rel))
    return out


def units(tier, seed):
    us = []
    for name in sse.SCHEMES:
        for label, cfg in sse.grid(name, tier):
            n = len(case_list(name, label, cfg, tier))
            for k in range(0, n, CHUNK):
                us.append(('%s/%s/%d' % (name, label, k), {'scheme': name, 'label': label, 'cfg': cfg, 'lo': k, 'hi': k + CHUNK}))
        us.append(('sweep/%s' % name, {'sweep': name}))
        us.append(('ctor/%s' % name, {'ctor': name}))
        us.append(('long/%s' % name, {'long': name}))
    return us


def long_cases(name):
    """one posting list far longer than anything the dense enumeration reaches (past the interpreter's recursion limit of 1000)"""
    if name == 'CGKO06.SSE1':
        return [('s2048', sse.base_cfg(name, param_s=2048), [1100])]
    if name == 'CJJ14.Pi2Lev':
        cfg = sse.base_cfg(name)
        top = cfg['param_B'] * cfg['param_B_prime'] * cfg['param_b_prime'] - 1          # the longest list the configuration admits
        return [('base', cfg, [top, 2])]
    return [('base', sse.base_cfg(name), [1100]), ('base', sse.base_cfg(name), [3000, 2])]


def refused_setups(name, cfg, cfg2, g):
    """databases whose setup is refused PART-WAY (after some keywords have been processed): a text identifier at the end of the
    last list and, for Pi2Lev, a last list longer than the configuration admits - each behind keywords of every size class"""
    ids = cfg.get('param_identifier_size', 8)
    if name == 'CJJ14.Pi2Lev':
        sizes = [cfg['param_b'] + 1, cfg['param_B'] * cfg['param_b_prime'] + 1, 1]
        too_long = cfg['param_B'] * cfg['param_B_prime'] * cfg['param_b_prime'] + 1
    else:
        sizes, too_long = [3, 5, 1], None
    base = {b'Zr%d' % i: domains.make_ids(n, ids, g, awkward=False) for i, n in enumerate(sizes)}
    first = dict(base)
    first[b'Zrz'] = domains.make_ids(2, ids, g, awkward=False) + ['text-id']
    out = [first]
    if too_long and too_long <= 5000:
        second = dict(base)
        second[b'Zrz'] = domains.make_ids(too_long, ids, g, awkward=False)
        out.append(second)
    return [d for d in out if sse.finalize_cfg(name, cfg, {k: [x for x in v if isinstance(x, bytes)] for k, v in d.items()}) == cfg2]


def run_case(r, seed, name, label, cfg, profile, kwlen, relation, cache=None, refused_first=False):
    case = {'scheme': name, 'label': label, 'cfg': cfg, 'profile': profile, 'kwlen': kwlen, 'relation': relation}
    core.note_case(case)
    db, cfg2, g = sse.build_db(seed, name, label, cfg, profile, kwlen, relation)
    det.seed_case(seed, PROPERTY, name, label, tuple(profile), kwlen, relation)
    L = sse.loader(name)
    r['evaluations'] += 1
    r['states'] += 1
    N = sum(profile)
    if N >= 2:
        r['nontrivial'] += 1
    if N == 1:
        r.count('N=1')
    if len(profile) == 1 and N & (N - 1) == 0 and N > 1:
        r.count('single-list-2^k')
    if name == 'CJJ14.Pi2Lev':
        for n in profile:
            r.count('pi2lev-small' if n <= cfg['param_b'] else 'pi2lev-medium' if n <= cfg['param_B'] * cfg['param_b_prime'] else 'pi2lev-large')
    if name == 'DP17.Pi' and cfg['param_L'] > 1:
        r.count('dp17-L>1')
    if name == 'CJJ14.PiPtr' and sse.pi_param(name, cfg, profile)[0] + 1 > 256:
        r.count('piptr-index-2-bytes')
    try:
        scheme = sse.shared_scheme(cache, L, cfg2) if cache is not None else L.SSEScheme(cfg2)
        key = scheme.KeyGen()
        if refused_first:
            # the same scheme object is first given databases it refuses part-way; what it builds afterwards must be as good as ever
            for bad in refused_setups(name, cfg, cfg2, g):
                try:
                    scheme.EDBSetup(key, bad)
                    r.count('refused-setup-first/accepted-after-all')
                except Exception:
                    r.count('refused-setup-first')
        edb = scheme.EDBSetup(key, db)
        r['transitions'] += 2
    except Exception as e:
        if 0 in profile:
            # a keyword with an EMPTY posting list: a scheme may refuse such a database loudly at setup (several do); one that
            # accepts it answers every keyword correctly
            r.count('empty-list-database-refused')
            r.outcome('empty-list-db-refused')
            return
        r.v(PROPERTY, name, 'setup-raises', '%s:%s' % (core.exc_site(e), type(e).__name__), case,
            'KeyGen/EDBSetup succeed on a valid database', core.exc_text(e))
        r.outcome('setup-raises')
        return
    if 0 in profile:
        r.count('empty-list-database-accepted')
    for w in db:
        try:
            tk = scheme.TokenGen(key, w)
            res = scheme.Search(edb, tk)
            got = res.get_result_list()
            r['transitions'] += 2
        except Exception as e:
            r.v(PROPERTY, name, 'search-raises', '%s:%s' % (core.exc_site(e), type(e).__name__), dict(case, keyword=w),
                'Search returns DB[w]', core.exc_text(e))
            r.outcome('search-raises')
            continue
        if sse.result_ok(name, got, db[w]):
            r.outcome('ok/len=%s' % ('1' if len(db[w]) == 1 else '2..8' if len(db[w]) <= 8 else '>8'))
        else:
            kind = sse.classify_diff(name, got, db[w])
            r.v(PROPERTY, name, 'result-differs', kind, dict(case, keyword=w), db[w], got)
            r.outcome('result-differs/' + kind)
    if N <= 4 and db:
        # the keyword handed over as another bytes-like object (bytearray, memoryview): refused, or the same answer
        w0 = list(db)[0]
        for mk in (bytearray, memoryview):
            try:
                got = scheme.Search(edb, scheme.TokenGen(key, mk(w0))).get_result_list()
            except Exception:
                r.count('bytes-like-keyword-refused')
                continue
            r.count('bytes-like-keyword-accepted')
            r['transitions'] += 2
            if not sse.result_ok(name, got, db[w0]):
                r.v(PROPERTY, name, 'result-differs', 'keyword-as-%s/%s' % (mk.__name__, sse.classify_diff(name, got, db[w0])), dict(case, keyword=w0), db[w0], got)
    if N <= 7 and cache is not None:
        # the database changes (every list loses its last posting or gets a new one, one keyword is replaced) and is encrypted
        # again under the SAME key by the same scheme object; both indexes must answer from their own database
        g2 = det.rng(seed, 'db2', name, label, tuple(profile), kwlen)
        ids = cfg.get('param_identifier_size', 8)
        db2 = {}
        for i, (w, lst) in enumerate(db.items()):
            new = list(lst[:-1]) if (len(lst) > 1 and i % 2 == 0) else list(lst) + [x for x in domains.make_ids(3, ids, g2, awkward=False) if x not in lst][:1]
            if new:
                db2[w] = new
        if db2 and sse.finalize_cfg(name, cfg, db2) == cfg2 and sse.valid_profile(name, cfg, [len(v) for v in db2.values()]):
            r.count('rebuild-same-key')
            try:
                edb2 = scheme.EDBSetup(key, db2)
                r['transitions'] += 1
                for which, e_, d_ in (('rebuilt', edb2, db2), ('original', edb, db)):
                    for w in d_:
                        got = scheme.Search(e_, scheme.TokenGen(key, w)).get_result_list()
                        r['transitions'] += 2
                        if not sse.result_ok(name, got, d_[w]):
                            r.v(PROPERTY, name, 'result-differs', 'after-rebuild-under-same-key/%s/%s' % (which, sse.classify_diff(name, got, d_[w])),
                                dict(case, keyword=w, rebuilt=True), d_[w], got)
                            r.outcome('result-differs/rebuild')
            except Exception as e:
                r.v(PROPERTY, name, 'search-raises', 'rebuild:%s:%s' % (core.exc_site(e), type(e).__name__), dict(case, rebuilt=True), 'second setup under the same key works', core.exc_text(e))
    if r['evaluations'] % 97 == 1:
        r.sample({'scheme': name, 'cfg_point': label, 'profile': profile, 'kwlen': kwlen, 'relation': relation})


def run_sweep(r, seed, name, tier):
    """ALL configuration points of one scheme in ONE process, forwards and then backwards, a few databases each: state that
    outlives a scheme object (class attributes, module-level caches keyed too coarsely) is carried from one configuration
    to the next deterministically, whatever the pool's assignment of units to processes"""
    pts = sse.grid(name, tier)
    for rnd, seq in enumerate((pts, pts[::-1])):
        for label, cfg in seq:
            for prof in ([2, 1], [5], [1, 1, 3]):
                if sse.valid_profile(name, cfg, prof):
                    n0 = len(r['violations'])
                    run_case(r, seed, name, label, cfg, prof, 6, 'disjoint')
                    for v in r['violations'][n0:]:
                        v['case']['sweep'] = True
                    r.count('sweep-cases')


def run_ctor_styles(r, seed, name):
    """the ways a caller can hand over the configuration and the arguments: positional / keyword, dict / OrderedDict / a dict
    subclass - the same scheme every time (a configuration that is NOT the default one, so that a dropped argument shows)"""
    import collections
    L = sse.loader(name)
    pts = [x for x in sse.grid(name, 'quick') if x[0] in ('base', 'id0', 'B0', 'quad0', 'l0', 's0')][:3]

    class MyDict(dict):
        pass
    for label, cfg in pts:
        for style, mk in (('keyword', lambda c: L.SSEScheme(config=c)), ('ordered-dict', lambda c: L.SSEScheme(collections.OrderedDict(c))),
                          ('dict-subclass', lambda c: L.SSEScheme(MyDict(c))), ('keyword-ordered-dict', lambda c: L.SSEScheme(config=collections.OrderedDict(c)))):
            for profile in ([3, 1], [2, 2, 1]):
                if not sse.valid_profile(name, cfg, profile):
                    continue
                case = {'scheme': name, 'label': label, 'cfg': cfg, 'profile': profile, 'ctor_style': style}
                core.note_case(case)
                db, cfg2, g = sse.build_db(seed, name, label, cfg, profile, 6, 'disjoint')
                det.seed_case(seed, PROPERTY, 'ctor', name, label, style, tuple(profile))
                r['evaluations'] += 1
                r['states'] += 1
                r['nontrivial'] += 1
                try:
                    scheme = mk(copy.deepcopy(cfg2))
                    key = scheme.KeyGen()
                    edb = scheme.EDBSetup(key, db)
                    r['transitions'] += 2
                except Exception as e:
                    r.v(PROPERTY, name, 'setup-raises', 'ctor-style/%s:%s:%s' % (style, core.exc_site(e), type(e).__name__), case, 'scheme built and index set up', core.exc_text(e))
                    continue
                r.count('ctor-styles')
                for w in db:
                    try:
                        tk = scheme.TokenGen(key, w)
                        got = scheme.Search(edb, tk).get_result_list()
                        r['transitions'] += 2
                    except Exception as e:
                        r.v(PROPERTY, name, 'search-raises', 'ctor-style/%s:%s:%s' % (style, core.exc_site(e), type(e).__name__), dict(case, keyword=w), db[w], core.exc_text(e))
                        continue
                    if not sse.result_ok(name, got, db[w]):
                        r.v(PROPERTY, name, 'result-differs', 'ctor-style/%s/%s' % (style, sse.classify_diff(name, got, db[w])), dict(case, keyword=w), db[w], got)
                    else:
                        r.outcome('ok/ctor-style')


def run_unit(p, tier, seed):
    r = core.Result()
    if 'ctor' in p:
        run_ctor_styles(r, seed, p['ctor'])
        det.restore()
        return r
    if 'sweep' in p:
        run_sweep(r, seed, p['sweep'], tier)
        det.restore()
        return r
    if 'long' in p:
        for label, cfg, prof in long_cases(p['long']):
            if sse.valid_profile(p['long'], cfg, prof):
                run_case(r, seed, p['long'], label, cfg, prof, 6, 'disjoint')
                r.count('long-list-cases')
            else:
                r.count('long-list-invalid-for-configuration')
        det.restore()
        return r
    name, label, cfg = p['scheme'], p['label'], p['cfg']
    cache = {}
    for i, (profile, kwlen, relation) in enumerate(case_list(name, label, cfg, tier)[p['lo']:p['hi']]):
        n0 = len(r['violations'])
        run_case(r, seed, name, label, cfg, profile, kwlen, relation, cache=cache, refused_first=(i % 4 == 3))
        for v in r['violations'][n0:]:
            v['case']['unit'] = core.enc({'tier': tier, 'lo': p['lo'], 'index': i})
    det.restore()
    return r


def replay(case, seed):
    if case.get('ctor_style'):
        full = run_unit({'ctor': case['scheme']}, 'quick', seed)
        return [v for v in full['violations'] if core.dec(v['case']).get('ctor_style') == case['ctor_style'] and core.dec(v['case']).get('label') == case['label']]
    if case.get('sweep'):
        full = run_unit({'sweep': case['scheme']}, 'quick', seed)
        return [v for v in full['violations'] if core.dec(v['case']).get('label') == case['label']]
    # the scheme object is shared by the cases of a unit: replay the unit's prefix up to and including the case
    u = case.get('unit')
    if u:
        full = run_unit({'scheme': case['scheme'], 'label': case['label'], 'cfg': case['cfg'], 'lo': u['lo'], 'hi': u['lo'] + u['index'] + 1}, u['tier'], seed)
        return [v for v in full['violations'] if core.dec(v['case']).get('profile') == case['profile']]
    r = core.Result()
    run_case(r, seed, case['scheme'], case['label'], case['cfg'], case['profile'], case['kwlen'], case['relation'])
    return r['violations']

# a subset of the units is executed again in other environments (child interpreters): see core.run_variants
ENV_VARIANTS = [{'name': 'python-O', 'flags': ['-O']}]

def variant_units(tier, seed, name):
    pred = lambda uid, p: 'ctor' in p
    return [u for u in units('quick', seed) if pred(u[0], u[1])]

