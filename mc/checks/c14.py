"""C14 - AES-CBC wrapper: correct decryption, fixed expansion, fresh randomness, length contracts (engine E1)."""
from mc import core, det

PROPERTY = 'C14'
ENGINE = 'E1 bounded-exhaustive enumeration of (key length, message length, declared-length variant) against an independent AES-CBC/PKCS7 computation'
LEVEL = 'model_checking'
DIRECTED_ADDITIONS = 'three workers forked from a process that has used the cipher, 600 (5000) encryptions per object with IV variety, 3000 (20000) wrong keys per ciphertext, near wrong keys, lengths around 256 / 4096, keyword calls, pickled / deep-copied objects, constructor domain 0..130'      # members added during the seeded-change campaign (DESIGN 7); counted under their own vacuity counters



def describe(tier):
    d = _describe(tier)
    d['rule'] = d['rule'] + ' Directed additions: ' + DIRECTED_ADDITIONS + '.'
    return d


def _describe(tier):
    hi = 200 if tier == 'quick' else 300
    return {
        'rule': 'case = (key length in {16,24,32}, key #0..2, message length); ALL message lengths 0..%d%s; per case: '
                'Decrypt(k,Encrypt(k,m))==m, len(c)==16+16*(len(m)//16+1), two encryptions differ (and their IVs differ), c[16:] equals '
                'AES-CBC(k, iv=c[:16], pkcs7(m)) computed directly with `cryptography`, decryption under two other keys raises or differs, '
                'a one-bit change of the key is such another key; declared-length variants: message_length/cipher_length in '
                '{unlimited, exact, off by one / off by one block} must accept/raise ValueError accordingly, and the ciphertext written by an object with an exact declared message length meets the same oracle (expansion, standard CBC/PKCS7 bytes, read back by itself, by the undeclared object and by an object declaring both lengths, which also writes); every wrong key length 0..40 must '
                'raise ValueError in Encrypt and Decrypt; every key_length 0..130 (and 192, 256, 512, 1024) outside {16,24,32} and every cipher_length that is not a '
                'multiple of 16 must be refused by the constructor; 600 (5000) encryptions of one message by ONE cipher object have pairwise distinct IVs and ciphertexts. non-trivial = message length > 0.'
                % (hi, '' if tier == 'quick' else ' and 1000, 4095, 4096, 4097, 65535, 65536'),
        'bounds': 'message lengths 0..%d exhaustive' % hi,
        'assumptions': ['wrong-key rejection is decided for DRBG keys only (chance equality 2^-128)'],
        'must_be_nonzero': ['roundtrip', 'block-multiple-message', 'empty-message', 'declared-mismatch-refused', 'declared-length-object-full-oracle', 'wrong-key-length-refused', 'long-runs', 'wrong-key-runs', 'forked-worker-ciphertexts-compared'],
    }


def units(tier, seed):
    hi = 200 if tier == 'quick' else 300
    us = []
    for kl in (16, 24, 32):
        for ki in range(3):
            for lo in range(0, hi + 1, 27):
                us.append(('enc/%d/%d/%d' % (kl, ki, lo), {'kind': 'enc', 'kl': kl, 'ki': ki, 'lens': list(range(lo, min(lo + 27, hi + 1)))}))
        # beyond the dense range: around 256 (message and ciphertext lengths), around 4 KiB
        us.append(('enc-mid/%d' % kl, {'kind': 'enc', 'kl': kl, 'ki': 0, 'lens': [223, 224, 225, 239, 240, 241, 255, 256, 257, 272, 300, 1000, 4095, 4096, 4097]}))
        if tier != 'quick':
            us.append(('enc-long/%d' % kl, {'kind': 'enc', 'kl': kl, 'ki': 0, 'lens': [8191, 8192, 8193, 65535, 65536, 65537]}))
        us.append(('contracts/%d' % kl, {'kind': 'contracts', 'kl': kl}))
    for kl in (16, 24, 32):
        us.append(('many/%d' % kl, {'kind': 'many', 'kl': kl, 'count': 600 if tier == 'quick' else 5000}))
    us.append(('ctor', {'kind': 'ctor'}))
    for kl in (16, 24, 32):
        us.append(('forked/%d' % kl, {'kind': 'forked', 'kl': kl}))
    return us


def ref_cbc(key, iv, m):
    from cryptography.hazmat.primitives.ciphers import Cipher, algorithms, modes
    pad = 16 - len(m) % 16
    pm = m + bytes([pad]) * pad
    enc = Cipher(algorithms.AES(key), modes.CBC(iv)).encryptor()
    return enc.update(pm) + enc.finalize()


def impl():
    from toolkit.symmetric_encryption import get_symmetric_encryption_implementation
    return get_symmetric_encryption_implementation('AES-CBC')


def run_enc(r, seed, kl, ki, lens):
    A = impl()
    a = A(key_length=kl)
    g = det.rng(seed, 'c14', kl, ki)
    key = g.randbytes(kl)
    # wrong keys: unrelated, and one bit away from the right one at the first byte, the last byte and at byte 16 (a 24- or 32-byte
    # key that agrees with the right one on its first 16 bytes is still another key)
    others = [g.randbytes(kl), bytes([key[0] ^ 1]) + key[1:], key[:-1] + bytes([key[-1] ^ 0x80])] + ([key[:16] + bytes([key[16] ^ 1]) + key[17:]] if kl > 16 else [])
    for n in lens:
        case = {'key_length': kl, 'key_index': ki, 'message_length': n}
        core.note_case(case)
        det.seed_case(seed, PROPERTY, kl, ki, n)
        m = g.randbytes(n)
        r['evaluations'] += 1
        r['states'] += 1
        if n:
            r['nontrivial'] += 1
        else:
            r.count('empty-message')
        if n and n % 16 == 0:
            r.count('block-multiple-message')
        try:
            c1 = a.Encrypt(key, m)
            c2 = a.Encrypt(key, m)
            p = a.Decrypt(key, c1)
            r['transitions'] += 3
        except Exception as e:
            r.v(PROPERTY, 'AES-CBC', 'raises', '%s:%s' % (core.exc_site(e), type(e).__name__), case, 'encrypt/decrypt succeed', core.exc_text(e))
            continue
        r.count('roundtrip')
        if p != m:
            r.v(PROPERTY, 'AES-CBC', 'roundtrip', 'decrypt!=message', case, m, p)
        if len(c1) != 16 + 16 * (n // 16 + 1):
            r.v(PROPERTY, 'AES-CBC', 'expansion', 'length', case, 16 + 16 * (n // 16 + 1), len(c1))
        if c1 == c2:
            r.v(PROPERTY, 'AES-CBC', 'randomness', 'equal-ciphertexts', case, 'two encryptions differ', 'equal')
        elif c1[:16] == c2[:16]:
            r.v(PROPERTY, 'AES-CBC', 'randomness', 'equal-iv', case, 'fresh IV per encryption', 'IV repeated')
        if len(c1) >= 32 and c1[16:] != ref_cbc(key, c1[:16], m):
            r.v(PROPERTY, 'AES-CBC', 'standard', 'not-cbc-pkcs7', case, 'c[16:] == AES-CBC(k, c[:16], pkcs7(m))', 'differs')
        for k2 in others:
            r['transitions'] += 1
            try:
                p2 = a.Decrypt(k2, c1)
            except Exception:
                r.outcome('wrong-key-raises')
                continue
            if p2 == m:
                r.v(PROPERTY, 'AES-CBC', 'wrong-key', 'returns-message', case, 'raise or a different plaintext', 'original message')
            else:
                r.outcome('wrong-key-garbage')
        # declared lengths
        clen = len(c1)
        for ml, ok in ((n, True), (n + 1, False), (n - 1, False)):
            if ml < 0:
                continue
            b = A(key_length=kl, message_length=ml)
            # the contract belongs to the object however it is called and wherever it has been: positional / keyword arguments,
            # the object itself / a pickled copy / a deep copy (rotating with the message length)
            style = n % 4
            try:
                if style == 2:
                    import pickle as _pickle
                    b = _pickle.loads(_pickle.dumps(b))
                elif style == 3:
                    import copy as _copy
                    b = _copy.deepcopy(b)
            except Exception:
                r.count('cipher-object-not-copyable (not demanded)')
                style = 0
            r['transitions'] += 1
            try:
                cb = b.Encrypt(key=key, message=m) if style == 1 else b.Encrypt(key, m)
                if ok:
                    # an object with a declared message length is the same cipher: same expansion, standard CBC/PKCS7 bytes, and what it
                    # wrote is read back by itself, by the undeclared object and by an object that declares both lengths
                    r.count('declared-length-object-full-oracle')
                    dcase = dict(case, declared=ml, call_style=['positional', 'keyword', 'pickled-object', 'deep-copied-object'][style])
                    if len(cb) != 16 + 16 * (n // 16 + 1):
                        r.v(PROPERTY, 'AES-CBC', 'expansion', 'length/declared-message-length', dcase, 16 + 16 * (n // 16 + 1), len(cb))
                    elif cb[16:] != ref_cbc(key, cb[:16], m):
                        r.v(PROPERTY, 'AES-CBC', 'standard', 'not-cbc-pkcs7/declared-message-length', dcase, 'c[16:] == AES-CBC(k, c[:16], pkcs7(m))', 'differs')
                    both = A(key_length=kl, message_length=ml, cipher_length=16 + 16 * (n // 16 + 1))
                    for who, o in (('itself', b), ('undeclared-object', a), ('both-lengths-declared', both)):
                        r['transitions'] += 1
                        try:
                            back = o.Decrypt(key, cb)
                        except Exception as e:
                            r.v(PROPERTY, 'AES-CBC', 'roundtrip', 'decrypt-raises/declared-message-length/by-' + who, dcase, 'message', core.exc_text(e))
                            break
                        if back != m:
                            r.v(PROPERTY, 'AES-CBC', 'roundtrip', 'decrypt!=message/declared-message-length/by-' + who, dcase, m, back)
                            break
                    try:
                        cb2 = both.Encrypt(key, m)
                        if len(cb2) != len(cb) or a.Decrypt(key, cb2) != m:
                            r.v(PROPERTY, 'AES-CBC', 'roundtrip', 'both-lengths-declared-object-writes-something-else', dcase, m, len(cb2))
                    except Exception as e:
                        r.v(PROPERTY, 'AES-CBC', 'roundtrip', 'both-lengths-declared-object-raises', dcase, 'ciphertext', core.exc_text(e))
                if not ok:
                    r.v(PROPERTY, 'AES-CBC', 'contract', 'message-length-accepted', dict(case, declared=ml, call_style=['positional', 'keyword', 'pickled-object', 'deep-copied-object'][style]), 'ValueError', 'accepted')
            except ValueError:
                if ok:
                    r.v(PROPERTY, 'AES-CBC', 'contract', 'message-length-refused', dict(case, declared=ml, call_style=['positional', 'keyword', 'pickled-object', 'deep-copied-object'][style]), 'accepted', 'ValueError')
                else:
                    r.count('declared-mismatch-refused')
            except Exception as e:
                r.v(PROPERTY, 'AES-CBC', 'contract', 'wrong-exception', dict(case, declared=ml), 'ValueError', core.exc_text(e))
        for cl, ok in ((clen, True), (clen + 16, False), (clen - 16, False)):
            if cl <= 0:
                continue
            b = A(key_length=kl, cipher_length=cl)
            style = (n + 1) % 4
            try:
                if style == 2:
                    import pickle as _pickle
                    b = _pickle.loads(_pickle.dumps(b))
                elif style == 3:
                    import copy as _copy
                    b = _copy.deepcopy(b)
            except Exception:
                r.count('cipher-object-not-copyable (not demanded)')
                style = 0
            r['transitions'] += 1
            try:
                got = b.Decrypt(key=key, cipher_text=c1) if style == 1 else b.Decrypt(key, c1)
                if not ok:
                    r.v(PROPERTY, 'AES-CBC', 'contract', 'cipher-length-accepted', dict(case, declared=cl), 'ValueError', 'accepted')
                elif got != m:
                    r.v(PROPERTY, 'AES-CBC', 'roundtrip', 'decrypt!=message', dict(case, declared=cl), m, got)
            except ValueError:
                if ok:
                    r.v(PROPERTY, 'AES-CBC', 'contract', 'cipher-length-refused', dict(case, declared=cl), 'accepted', 'ValueError')
                else:
                    r.count('declared-mismatch-refused')
            except Exception as e:
                r.v(PROPERTY, 'AES-CBC', 'contract', 'wrong-exception', dict(case, declared=cl), 'ValueError', core.exc_text(e))
        r.outcome('ok/len%%16=%d' % (n % 16))
    r.sample({'key_length': kl, 'key_index': ki, 'message_lengths': [lens[0], lens[-1]]})


def run_contracts(r, seed, kl):
    A = impl()
    a = A(key_length=kl)
    g = det.rng(seed, 'c14c', kl)
    good = g.randbytes(kl)
    c = a.Encrypt(good, b'hello')
    for wl in range(0, 41):
        if wl == kl:
            continue
        case = {'key_length': kl, 'actual_key_length': wl}
        core.note_case(case)
        r['evaluations'] += 1
        r['states'] += 1
        for opname, f in (('Encrypt', lambda: a.Encrypt(g.randbytes(wl), b'hello')), ('Decrypt', lambda: a.Decrypt(g.randbytes(wl), c))):
            r['transitions'] += 1
            try:
                f()
                r.v(PROPERTY, 'AES-CBC', 'contract', 'wrong-key-length-accepted/' + opname, case, 'ValueError', 'accepted')
            except ValueError:
                r.count('wrong-key-length-refused')
            except Exception as e:
                r.v(PROPERTY, 'AES-CBC', 'contract', 'wrong-exception/' + opname, case, 'ValueError', core.exc_text(e))
    r.sample({'contracts': 'wrong key lengths 0..40', 'key_length': kl})


def run_ctor(r, seed):
    A = impl()
    for kl in list(range(0, 131)) + [192, 256, 512, 1024]:
        case = {'ctor_key_length': kl}
        r['evaluations'] += 1
        r['states'] += 1
        r['transitions'] += 1
        try:
            A(key_length=kl)
            if kl not in (16, 24, 32):
                r.v(PROPERTY, 'AES-CBC', 'contract', 'ctor-key-length-accepted', case, 'ValueError', 'accepted')
        except ValueError:
            if kl in (16, 24, 32):
                r.v(PROPERTY, 'AES-CBC', 'contract', 'ctor-key-length-refused', case, 'accepted', 'ValueError')
            else:
                r.count('ctor-refused')
    for cl in range(1, 100):
        case = {'ctor_cipher_length': cl}
        r['evaluations'] += 1
        r['transitions'] += 1
        try:
            A(key_length=16, cipher_length=cl)
            if cl % 16:
                r.v(PROPERTY, 'AES-CBC', 'contract', 'ctor-cipher-length-accepted', case, 'ValueError', 'accepted')
        except ValueError:
            if cl % 16 == 0:
                r.v(PROPERTY, 'AES-CBC', 'contract', 'ctor-cipher-length-refused', case, 'accepted', 'ValueError')
            else:
                r.count('ctor-refused')
    for alias in ('AES-CBC', 'aes_cbc', 'aescbc', 'AES-cbc'):
        from toolkit.symmetric_encryption import get_symmetric_encryption_implementation
        if get_symmetric_encryption_implementation(alias) is not A:
            r.v(PROPERTY, 'AES-CBC', 'lookup', 'alias', {'alias': alias}, 'same class', 'different')
    r.sample({'ctor': 'key_length 0..40, cipher_length 1..99'})


def run_many(r, seed, kl, count):
    """fresh randomness over a long run of ONE cipher object: all IVs and all ciphertexts of `count` encryptions of the same
    message under the same key are pairwise distinct (a recycled IV batch or counter shows up as a repeat)"""
    A = impl()
    a = A(key_length=kl)
    g = det.rng(seed, 'c14-many', kl)
    det.seed_case(seed, PROPERTY, 'many', kl)
    key = g.randbytes(kl)
    for m in (b'', b'same message', g.randbytes(48)):
        seen_iv, seen_ct = {}, {}
        for i in range(count):
            c = a.Encrypt(key, m)
            r['transitions'] += 1
            if c[:16] in seen_iv:
                r.v(PROPERTY, 'AES-CBC', 'randomness', 'iv-repeats-within-%d-encryptions' % count, {'key_length': kl, 'message_length': len(m), 'encryption': i,
                    'first_use': seen_iv[c[:16]]}, 'pairwise distinct IVs', 'IV of encryption %d reused at %d' % (seen_iv[c[:16]], i))
                break
            if c in seen_ct:
                r.v(PROPERTY, 'AES-CBC', 'randomness', 'ciphertext-repeats', {'key_length': kl, 'message_length': len(m), 'encryption': i}, 'pairwise distinct', 'repeat')
                break
            seen_iv[c[:16]] = i
            seen_ct[c] = i
        # an IV is 16 fresh random bytes: over the run every byte position takes many values (a position that is constant, or takes
        # fewer than 16 values in >= 600 draws, has probability < 1e-100 for uniform bytes)
        if len(seen_iv) >= 600:
            for pos in range(16):
                vals = {iv[pos] for iv in seen_iv}
                if len(vals) < 16:
                    r.v(PROPERTY, 'AES-CBC', 'randomness', 'iv-byte-not-random', {'key_length': kl, 'message_length': len(m), 'position': pos},
                        'every IV byte varies over %d encryptions' % len(seen_iv), 'byte %d takes only %d value(s): %s' % (pos, len(vals), sorted(vals)[:4]))
                    break
        r['evaluations'] += 1
        r['states'] += 1
        r['nontrivial'] += 1
        r.count('long-runs')
    # a long run of WRONG keys against one ciphertext: none of them may hand back the original message (a padding check that
    # lets one byte value through does so about once in 256 attempts - for the empty message that is the original)
    nwrong = 3000 if count <= 600 else 20000
    for m in (b'', b'\x00', g.randbytes(16), g.randbytes(5)):
        c = a.Encrypt(key, m)
        hits = 0
        for i in range(nwrong):
            k2 = g.randbytes(kl)
            r['transitions'] += 1
            try:
                if k2 != key and a.Decrypt(k2, c) == m:
                    hits += 1
            except Exception:
                pass
        r['evaluations'] += 1
        r['states'] += 1
        r.count('wrong-key-runs')
        if hits:
            r.v(PROPERTY, 'AES-CBC', 'wrong-key', 'returns-message-in-long-run', {'key_length': kl, 'message_length': len(m), 'wrong_keys': nwrong},
                'no wrong key returns the original message', '%d of %d did' % (hits, nwrong))
    r.outcome('many-ok')
    r.sample({'key_length': kl, 'encryptions_of_one_message_by_one_object': count, 'wrong_keys_per_ciphertext': nwrong})


def run_forked(r, seed, kl):
    """fresh randomness across forked workers: a process that has used the cipher forks three workers (pre-fork server,
    multiprocessing's fork start method); their IVs, ciphertexts of one message under one key and generated keys are pairwise distinct"""
    A = impl()
    a = A(key_length=kl)
    g = det.rng(seed, 'c14-forked', kl)
    key = g.randbytes(kl)
    m = b'same message'
    case = {'key_length': kl, 'forked_workers': 3}
    core.note_case(case)
    r['evaluations'] += 1
    r['states'] += 1
    r['nontrivial'] += 1

    def work(i):
        b = A(key_length=kl)
        return [a.Encrypt(key, m), a.Encrypt(key, m), b.Encrypt(key, m)], [a.KeyGen(), b.KeyGen()]
    det.restore()
    warm = [a.Encrypt(key, m), a.Encrypt(key, m)]
    warm_keys = [a.KeyGen()]
    res = det.forked(3, work)
    after = [a.Encrypt(key, m)]
    r['transitions'] += 3 * 5 + 4
    if any(t != 'ok' for t, _ in res):
        r.v(PROPERTY, 'AES-CBC', 'raises', 'in-forked-worker', case, 'encryption works in a forked worker', repr([x for t, x in res if t != 'ok'][:1]))
        return
    cts = warm + after + [c for _, (cs, _) in res for c in cs]
    keys = warm_keys + [k for _, (_, ks) in res for k in ks]
    r.count('forked-worker-ciphertexts-compared', len(cts))
    if len({c[:16] for c in cts}) != len(cts):
        r.v(PROPERTY, 'AES-CBC', 'randomness', 'iv-repeats-across-forked-workers', case, 'pairwise distinct IVs',
            '%d encryptions, %d distinct IVs' % (len(cts), len({c[:16] for c in cts})))
    if len(set(keys)) != len(keys):
        r.v(PROPERTY, 'AES-CBC', 'randomness', 'keygen-repeats-across-forked-workers', case, 'pairwise distinct keys', '%d keys, %d distinct' % (len(keys), len(set(keys))))
    for c in cts:
        if a.Decrypt(key, c) != m:
            r.v(PROPERTY, 'AES-CBC', 'roundtrip', 'forked-worker-ciphertext', case, m, 'differs')
    r.outcome('forked-ok')


def run_unit(p, tier, seed):
    r = core.Result()
    if p['kind'] == 'forked':
        run_forked(r, seed, p['kl'])
        det.restore()
        return r
    if p['kind'] == 'many':
        run_many(r, seed, p['kl'], p['count'])
        det.restore()
        return r
    if p['kind'] == 'enc':
        run_enc(r, seed, p['kl'], p['ki'], p['lens'])
    elif p['kind'] == 'contracts':
        run_contracts(r, seed, p['kl'])
    else:
        run_ctor(r, seed)
    det.restore()
    return r


def replay(case, seed):
    r = core.Result()
    if 'forked_workers' in case:
        run_forked(r, seed, case['key_length'])
    elif 'message_length' in case:
        run_enc(r, seed, case['key_length'], case['key_index'], [case['message_length']])
    elif 'encryption' in case:
        run_many(r, seed, case['key_length'], 5000)
    elif 'actual_key_length' in case:
        run_contracts(r, seed, case['key_length'])
    else:
        run_ctor(r, seed)
    return r['violations']

# a subset of the units is executed again in other environments (child interpreters): see core.run_variants
ENV_VARIANTS = [{'name': 'python-O', 'flags': ['-O']}]

def variant_units(tier, seed, name):
    pred = lambda uid, p: p.get('kind') in ('contracts', 'ctor')
    return [u for u in units('quick', seed) if pred(u[0], u[1])]

