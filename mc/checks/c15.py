"""C15 - pseudo-random permutations are length-preserving bijections with inverses (engine E1)."""
from mc import core, det

PROPERTY = 'C15'
ENGINE = 'E1 exhaustive enumeration of the whole domain {0,1}^n for small n (bijection check), bounded enumeration of widths/lengths beyond'
LEVEL = 'model_checking'
DIRECTED_ADDITIONS = 'non-default round counts and 13 digests (small widths exhaustively, 11 wide widths), 20 keys through one object, operator-built messages, four-byte Luby-Rackoff slices, LR lengths 96..4096, bytes-like arguments, objects alive at once and their copies'      # members added during the seeded-change campaign (DESIGN 7); counted under their own vacuity counters

WIDE = list(range(13, 41)) + [159, 160, 161, 319, 320, 321, 2047, 2100]


def describe(tier):
    d = _describe(tier)
    d['rule'] = d['rule'] + ' Directed additions: ' + DIRECTED_ADDITIONS + '.'
    return d


def _describe(tier):
    nmax = 12 if tier == 'quick' else 13
    return {
        'rule': 'BitwiseFFX: for every n in 2..%d and 3 DRBG keys, ALL 2^n inputs: image == {0,1}^n (bijection), every output has length n, '
                'decrypt(encrypt(x)) == x and encrypt(decrypt(x)) == x; for n in {13..40,159,160,161,319,320,321,2047,2100} %d DRBG inputs each: '
                'length preserved, inverse holds, distinct inputs give distinct outputs. BitwiseFPEPRP: for declared (key bits, message bits) '
                'and actual lengths in {n-1,n,n+1}^2 the call is accepted iff both match, and equals BitwiseFFX.encrypt. '
                'HmacLubyRackoffPRP: ALL 65536 two-byte messages are mapped injectively onto two-byte strings; four-byte messages: injective on every slice {all 65536 values of one half} x {other half fixed to zero / a DRBG value}; message lengths 2..64 (even) x '
                '200 DRBG inputs: injective, length-preserving, deterministic; odd message length, key length not divisible by 3, wrong key / '
                'message length must raise ValueError; LubyRackoffPRP constructor contracts. non-trivial = input other than all-zero.'
                % (nmax, 20),
        'bounds': 'n<=%d exhaustive over inputs; 3 keys' % nmax,
        'assumptions': ['n = 1 is outside the property (it starts at n = 2)', 'non-default constructions: even round counts {2,4,6,8,12,16} x {sha1,sha256,md5,sha512}, all inputs of n = 2..8 (10); an odd round count is outside (upstream pyffx construction: with unequal halves it is its own inverse only for an even number of rounds; nothing in the library uses one)', 'keys are DRBG values (3 per width)'],
        'must_be_nonzero': ['ffx-exhaustive-widths', 'ffx-nondefault-construction', 'ffx-key-histories', 'ffx-operator-built-messages', 'ffx-wide', 'fpeprp-contract', 'lr-2byte-exhaustive', 'lr-4byte-slices', 'lr-contract-refused', 'prp-objects-alive-at-once'],
    }


def units(tier, seed):
    nmax = 12 if tier == 'quick' else 13
    us = []
    for n in range(2, nmax + 1):
        for ki in range(3):
            us.append(('ffx/%d/%d' % (n, ki), {'kind': 'ffx', 'n': n, 'ki': ki}))
    for n in WIDE:
        us.append(('ffxw/%d' % n, {'kind': 'ffxw', 'n': n, 'count': 20 if n < 2000 else 6}))
    for rounds in (2, 4, 6, 8, 12, 16):
        for dg in ('sha1', 'sha256', 'md5', 'sha512'):
            us.append(('ffxcfg/%d/%s' % (rounds, dg), {'kind': 'ffx', 'n': None, 'ki': 1, 'rounds': rounds, 'digest': dg, 'ns': list(range(2, 9 if tier == 'quick' else 11))}))
    # every digest hashlib offers with a fixed size, at the default round count: small widths exhaustively, and wide inputs whose
    # Feistel halves need one, two, three ... digest blocks
    for dg in ('sha224', 'sha384', 'sha3_256', 'sha3_512', 'blake2s', 'blake2b', 'sha256', 'sha512', 'md5'):
        us.append(('ffxdg/%s' % dg, {'kind': 'ffx', 'n': None, 'ki': 2, 'rounds': 10, 'digest': dg, 'ns': [2, 3, 7, 8]}))
        us.append(('ffxwdg/%s' % dg, {'kind': 'ffxw', 'n': None, 'ns': [255, 256, 257, 449, 513, 770, 1000, 1025, 1281, 1600, 2047], 'count': 4, 'digest': dg}))
    us.append(('fpeprp', {'kind': 'fpeprp'}))
    us.append(('keyhist', {'kind': 'keyhist'}))
    for q in range(4):
        us.append(('lr2/%d' % q, {'kind': 'lr2', 'q': q}))
    us.append(('lr2-join', {'kind': 'lr2join'}))
    for ki in range(1 if tier == 'quick' else 3):
        for vary in ('left', 'right'):
            for fi in (0, 1):
                us.append(('lrslice/%d/%s/%d' % (ki, vary, fi), {'kind': 'lrslice', 'ki': ki, 'vary': vary, 'fi': fi}))
    for ml in range(2, 65, 2):
        us.append(('lr/%d' % ml, {'kind': 'lr', 'ml': ml, 'count': 200 if tier != 'quick' or ml <= 16 else 60}))
    for ml in (96, 128, 130, 144, 160, 256, 1024, 4096):            # declared domains far beyond the dense range: halves of 48..2048 bytes
        us.append(('lr/%d' % ml, {'kind': 'lr', 'ml': ml, 'count': 20}))
    us.append(('lr-contracts', {'kind': 'lrc'}))
    return us


def run_unit(p, tier, seed):
    from toolkit.bits import Bitset
    from toolkit.symmetric_encryption.fpe import BitwiseFFX
    from toolkit.prp import get_prp_implementation
    r = core.Result()
    kind = p['kind']
    if kind == 'ffx':
      import hashlib
      for n in (p.get('ns') or [p['n']]):
        ki = p['ki']
        g = det.rng(seed, 'c15-ffx', n, ki)
        key = g.randbytes(16 + 8 * ki)
        # non-default constructions: another (even) number of rounds, another digest
        f = BitwiseFFX(rounds=p['rounds'], digest_mod=getattr(hashlib, p['digest'])) if p.get('rounds') else BitwiseFFX()
        image = set()
        r.count('ffx-exhaustive-widths')
        if p.get('rounds'):
            r.count('ffx-nondefault-construction')
        for x in range(1 << n):
            case = {'n': n, 'key_index': ki, 'x': x}
            if p.get('rounds'):
                case.update(rounds=p['rounds'], digest=p['digest'])
            core.note_case(case)
            r['evaluations'] += 1
            r['transitions'] += 2
            if x:
                r['nontrivial'] += 1
            try:
                y = f.encrypt(key, Bitset(x, n))
                z = f.decrypt(key, y)
                w = f.encrypt(key, f.decrypt(key, Bitset(x, n)))
            except Exception as e:
                r.v(PROPERTY, 'BitwiseFFX', 'raises', '%s:%s' % (core.exc_site(e), type(e).__name__), case, 'encrypt/decrypt succeed', core.exc_text(e))
                continue
            if len(y) != n or int(y) >= (1 << n):
                r.v(PROPERTY, 'BitwiseFFX', 'length', 'encrypt', case, n, (int(y), len(y)))
            if int(z) != x or len(z) != n:
                r.v(PROPERTY, 'BitwiseFFX', 'inverse', 'decrypt(encrypt(x))', case, (x, n), (int(z), len(z)))
            if int(w) != x or len(w) != n:
                r.v(PROPERTY, 'BitwiseFFX', 'inverse', 'encrypt(decrypt(x))', case, (x, n), (int(w), len(w)))
            image.add(int(y))
            if n <= 8 and not p.get('rounds'):
                # the same n-bit string arrived at through Bitset operators instead of the constructor: same image
                m_ = (x * 5 + 3) % (1 << n)
                for how, msg in (('xor', Bitset(x ^ m_, n) ^ Bitset(m_, n)), ('shift', (Bitset(x, n) << 0) >> 0), ('and', Bitset(x, n) & Bitset((1 << n) - 1, n)),
                                 ('invert-twice', ~~Bitset(x, n))):
                    r['transitions'] += 1
                    try:
                        y2 = f.encrypt(key, msg)
                    except Exception as e:
                        r.v(PROPERTY, 'BitwiseFFX', 'raises', 'operator-built-message/%s:%s' % (how, type(e).__name__), case, 'encrypt succeeds', core.exc_text(e))
                        continue
                    if int(y2) != int(y) or len(y2) != n:
                        r.v(PROPERTY, 'BitwiseFFX', 'not-a-function', 'operator-built-message/' + how, case, (int(y), n), (int(y2), len(y2)))
                r.count('ffx-operator-built-messages')
        r['states'] += 1 << n
        if len(image) != (1 << n):
            r.v(PROPERTY, 'BitwiseFFX', 'bijection', 'collision', {'n': n, 'key_index': ki, 'x': 'all'}, '%d distinct images' % (1 << n), len(image))
            r.outcome('not-bijective')
        else:
            r.outcome('bijective/n=%d' % n)
        r.sample({'prim': 'BitwiseFFX', 'n': n, 'key_index': ki, 'inputs': 'all %d' % (1 << n)})
    elif kind == 'ffxw':
        import hashlib
        for n in (p.get('ns') or [p['n']]):
            g = det.rng(seed, 'c15-ffxw', n)
            key = g.randbytes(24)
            f = BitwiseFFX(digest_mod=getattr(hashlib, p['digest'])) if p.get('digest') else BitwiseFFX()
            outs = {}
            xs = [0, 1, (1 << n) - 1, 1 << (n - 1)] + [g.getrandbits(n) for _ in range(p['count'])]
            r.count('ffx-wide')
            for x in xs:
                case = {'n': n, 'x': x}
                if p.get('digest'):
                    case['digest'] = p['digest']
                core.note_case(case)
                r['evaluations'] += 1
                r['states'] += 1
                r['transitions'] += 2
                r['nontrivial'] += 1 if x else 0
                try:
                    y = f.encrypt(key, Bitset(x, n))
                    z = f.decrypt(key, y)
                except Exception as e:
                    r.v(PROPERTY, 'BitwiseFFX', 'raises', '%s:%s' % (core.exc_site(e), type(e).__name__), case, 'encrypt/decrypt succeed', core.exc_text(e))
                    continue
                if len(y) != n or int(y).bit_length() > n:
                    r.v(PROPERTY, 'BitwiseFFX', 'length', 'encrypt', case, n, len(y))
                if int(z) != x or len(z) != n:
                    r.v(PROPERTY, 'BitwiseFFX', 'inverse', 'decrypt(encrypt(x))', case, 'x', 'differs')
                if int(y) in outs and outs[int(y)] != x:
                    r.v(PROPERTY, 'BitwiseFFX', 'bijection', 'collision', case, 'distinct outputs', 'collision with another input')
                outs[int(y)] = x
            r.outcome('wide-ok')
            r.sample({'prim': 'BitwiseFFX', 'n': n, 'inputs': len(xs)})
    elif kind == 'fpeprp':
        P = get_prp_implementation('BitwiseFPEPRP')
        g = det.rng(seed, 'c15-fpeprp')
        for kb, mb in ((128, 8), (192, 16), (192, 64), (128, 2), (256, 21)):
            prp = P(key_bit_length=kb, message_bit_length=mb)
            for ak in (kb - 1, kb, kb + 1):
                for am in (mb - 1, mb, mb + 1):
                    case = {'declared': [kb, mb], 'actual': [ak, am]}
                    core.note_case(case)
                    r['evaluations'] += 1
                    r['states'] += 1
                    r['transitions'] += 1
                    r.count('fpeprp-contract')
                    k = Bitset(g.getrandbits(ak) | (1 << (ak - 1)), ak)
                    m = Bitset(g.getrandbits(am), am) if am > 0 else Bitset(0, 0)
                    try:
                        y = prp(k, m)
                        if (ak, am) != (kb, mb):
                            r.v(PROPERTY, 'BitwiseFPEPRP', 'contract', 'wrong-length-accepted', case, 'ValueError', 'accepted')
                        else:
                            exp = BitwiseFFX().encrypt(bytes(k), m)
                            if len(y) != mb or int(y) != int(exp):
                                r.v(PROPERTY, 'BitwiseFPEPRP', 'value', 'differs-from-ffx', case, (int(exp), mb), (int(y), len(y)))
                            r['nontrivial'] += 1
                    except ValueError:
                        if (ak, am) == (kb, mb):
                            r.v(PROPERTY, 'BitwiseFPEPRP', 'contract', 'right-length-refused', case, 'accepted', 'ValueError')
                        else:
                            r.outcome('refused')
                    except Exception as e:
                        r.v(PROPERTY, 'BitwiseFPEPRP', 'contract', 'wrong-exception', case, 'ValueError', core.exc_text(e))
        # raw byte strings (and other bytes-like objects) instead of Bitsets: one whose size in bits is not the declared one is
        # refused like any other wrong length (a too-short one must not be silently widened)
        prp = P(key_bit_length=128, message_bit_length=16)
        goodk = Bitset(g.getrandbits(128) | (1 << 127), 128)
        goodm = Bitset(0x0105, 16)
        for what, k_, m_ in (('short-bytes-message', goodk, b'\x05'), ('short-memoryview-message', goodk, memoryview(b'\x05')), ('empty-bytes-message', goodk, b''),
                             ('short-bytearray-message', goodk, bytearray(b'\x05')), ('short-bytes-key', b'\x09', goodm), ('short-memoryview-key', memoryview(b'\x00\x09'), goodm),
                             ('empty-bytes-key', b'', goodm), ('long-bytes-message', goodk, b'\x00\x01\x05')):
            case = {'declared': [128, 16], 'bytes_like': what}
            r['evaluations'] += 1
            r['transitions'] += 1
            r.count('fpeprp-contract')
            try:
                prp(k_, m_)
                r.v(PROPERTY, 'BitwiseFPEPRP', 'contract', 'wrong-length-bytes-like-accepted', case, 'refused', 'accepted')
            except Exception:
                r.outcome('refused')
        # small-domain bijection through the PRP wrapper
        prp = P(key_bit_length=128, message_bit_length=6)
        k = Bitset(g.getrandbits(128) | (1 << 127), 128)
        img = {int(prp(k, Bitset(x, 6))) for x in range(64)}
        r['evaluations'] += 64
        r['transitions'] += 64
        if img != set(range(64)):
            r.v(PROPERTY, 'BitwiseFPEPRP', 'bijection', 'collision', {'n': 6}, 'permutation of 0..63', sorted(img))
        # history on ONE PRP object: a correct call, then the same integer value presented as a key of another bit length
        for kb, mb in ((128, 8), (192, 16)):
            prp = P(key_bit_length=kb, message_bit_length=mb)
            kv = g.getrandbits(kb - 2)            # top two bits clear: the value also fits in kb-1 bits
            good = Bitset(kv, kb)
            msg = Bitset(g.getrandbits(mb), mb)
            y0 = prp(good, msg)
            for wrong in (kb - 1, kb + 1, kb + 8):
                case = {'same_key_value_other_length': wrong, 'declared': [kb, mb]}
                r['evaluations'] += 1
                r['transitions'] += 1
                r.count('fpeprp-contract')
                try:
                    prp(Bitset(kv, wrong), msg)
                    r.v(PROPERTY, 'BitwiseFPEPRP', 'contract', 'wrong-length-accepted-after-correct-call', case, 'ValueError', 'accepted')
                except ValueError:
                    r.outcome('refused')
                except Exception as e:
                    r.v(PROPERTY, 'BitwiseFPEPRP', 'contract', 'wrong-exception', case, 'ValueError', core.exc_text(e))
            for wrongm in (mb - 1, mb + 1):
                case = {'same_message_value_other_length': wrongm, 'declared': [kb, mb]}
                r['evaluations'] += 1
                try:
                    prp(good, Bitset(int(msg) >> 1, wrongm))
                    r.v(PROPERTY, 'BitwiseFPEPRP', 'contract', 'wrong-length-accepted-after-correct-call', case, 'ValueError', 'accepted')
                except ValueError:
                    r.outcome('refused')
                except Exception as e:
                    r.v(PROPERTY, 'BitwiseFPEPRP', 'contract', 'wrong-exception', case, 'ValueError', core.exc_text(e))
            if int(prp(good, msg)) != int(y0):
                r.v(PROPERTY, 'BitwiseFPEPRP', 'determinism', 'after-refused-calls', {'declared': [kb, mb]}, 'same output', 'differs')
        # several widths under ONE key in ONE process, through the PRP wrapper: every instance is a permutation of its own domain
        shared = Bitset(g.getrandbits(128) | (1 << 127), 128)
        for n in (12, 11, 10, 9, 8, 7, 6, 5, 4, 3, 2, 3, 4, 5, 6, 7, 8, 9, 10, 11, 12):
            prp = P(key_bit_length=128, message_bit_length=n)
            outs = [prp(shared, Bitset(x, n)) for x in range(1 << n)]
            r['evaluations'] += 1 << n
            r['transitions'] += 1 << n
            r['states'] += 1
            r.count('fpeprp-shared-key-widths')
            if any(len(y) != n for y in outs):
                r.v(PROPERTY, 'BitwiseFPEPRP', 'length', 'shared-key', {'n': n, 'shared_key': True}, n, sorted({len(y) for y in outs}))
            if {int(y) for y in outs} != set(range(1 << n)):
                r.v(PROPERTY, 'BitwiseFPEPRP', 'bijection', 'shared-key', {'n': n, 'shared_key': True}, 'permutation of 0..2^n-1', 'not a permutation')
            ffx = BitwiseFFX()
            if any(int(y) != int(ffx.encrypt(bytes(shared), Bitset(x, n))) for x, y in enumerate(outs)):
                r.v(PROPERTY, 'BitwiseFPEPRP', 'value', 'shared-key-differs-from-ffx', {'n': n, 'shared_key': True}, 'BitwiseFFX.encrypt', 'differs')
        r.sample({'prim': 'BitwiseFPEPRP', 'contracts': '(declared, actual) in {n-1,n,n+1}^2'})
    elif kind == 'lr2':
        P = get_prp_implementation('HmacLubyRackoffPRP')
        g = det.rng(seed, 'c15-lr2')
        key = g.randbytes(48)
        prp = P(message_length=2, key_length=48)
        q = p['q']
        img = set()
        for x in range(q * 16384, (q + 1) * 16384):
            m = x.to_bytes(2, 'big')
            y = prp(key, m)
            r['evaluations'] += 1
            r['transitions'] += 1
            if len(y) != 2:
                r.v(PROPERTY, 'HmacLubyRackoffPRP', 'length', 'output', {'message': m}, 2, len(y))
            img.add(y)
        r['states'] += 16384
        r['nontrivial'] += 16383
        if len(img) != 16384:
            r.v(PROPERTY, 'HmacLubyRackoffPRP', 'bijection', 'collision', {'message_length': 2, 'quarter': q}, 16384, len(img))
        r.count('lr-2byte-exhaustive')
        r.outcome('lr2-quarter-injective')
    elif kind == 'keyhist':
        # many keys through ONE cipher object, each used again later: the permutation of a key does not depend on which other keys
        # the object has seen in between (tables of all 2^n images taken twice, in two different key orders)
        n, nkeys = 6, 20
        g = det.rng(seed, 'c15-keyhist')
        keys = [g.randbytes(16) for _ in range(nkeys)]
        P = get_prp_implementation('BitwiseFPEPRP')
        objs = {'BitwiseFFX': (BitwiseFFX(), lambda o, k, x: int(o.encrypt(k, Bitset(x, n))), lambda o, k, y: int(o.decrypt(k, Bitset(y, n)))),
                'BitwiseFPEPRP': (P(key_bit_length=128, message_bit_length=n), lambda o, k, x: int(o(Bitset(k, 128), Bitset(x, n))), None)}
        for oname, (o, enc, dec) in objs.items():
            tables = {}
            order1 = list(range(nkeys))
            order2 = list(reversed(range(nkeys)))
            for rnd, order in enumerate((order1, order2, order1)):
                for ki in order:
                    tab = tuple(enc(o, keys[ki], x) for x in range(1 << n))
                    r['evaluations'] += 1 << n
                    r['transitions'] += 1 << n
                    r['states'] += 1
                    r['nontrivial'] += 1
                    case = {'object': oname, 'n': n, 'key_history': 'round %d, key %d of %d' % (rnd, ki, nkeys)}
                    core.note_case(case)
                    if sorted(tab) != list(range(1 << n)):
                        r.v(PROPERTY, oname, 'bijection', 'collision-after-key-history', case, 'a permutation of {0,1}^%d' % n, 'not a permutation')
                    if ki in tables and tables[ki] != tab:
                        r.v(PROPERTY, oname, 'key-history', 'permutation-of-a-key-changed', case, 'the same permutation as the first time this key was used', 'differs')
                        r.outcome('key-history-dependent')
                    tables.setdefault(ki, tab)
                    if dec is not None and rnd == 2:
                        # ciphertexts made in round 0 are inverted in round 2
                        if any(dec(o, keys[ki], tables[ki][x]) != x for x in range(1 << n)):
                            r.v(PROPERTY, oname, 'inverse', 'decrypt-after-key-history', case, 'decrypt inverts the ciphertexts made earlier under this key', 'differs')
            if len(set(tables.values())) != nkeys:
                r.v(PROPERTY, oname, 'key-history', 'two-keys-one-permutation', {'object': oname, 'n': n}, '%d distinct permutations for %d keys' % (nkeys, nkeys), len(set(tables.values())))
            r.count('ffx-key-histories')
        r.outcome('key-history-independent')
        r.sample({'prim': 'BitwiseFFX / BitwiseFPEPRP', 'n': n, 'keys_through_one_object': nkeys, 'orders': 3}, limit=1)
    elif kind == 'lrslice':
        # 4-byte messages: the whole domain (2^32) is too large, but a Feistel network must be injective on every slice of it.
        # Slices that fix one half and run through ALL 65536 values of the other exercise every value a round's XOR can take.
        P = get_prp_implementation('HmacLubyRackoffPRP')
        g = det.rng(seed, 'c15-lrslice', p['ki'])
        key = g.randbytes(48)
        prp = P(message_length=4, key_length=48)
        fixed = [b'\x00\x00', g.randbytes(2)][p['fi']]
        img = set()
        for x in range(65536):
            v = x.to_bytes(2, 'big')
            m = (v + fixed) if p['vary'] == 'left' else (fixed + v)
            y = prp(key, m)
            if len(y) != 4:
                r.v(PROPERTY, 'HmacLubyRackoffPRP', 'length', 'output', {'message': m}, 4, len(y))
            img.add(y)
        r['evaluations'] += 65536
        r['transitions'] += 65536
        r['states'] += 65536
        r['nontrivial'] += 65535
        case = {'message_length': 4, 'slice': p['vary'], 'fixed_half': fixed, 'key_index': p['ki'], 'fixed_index': p['fi']}
        if len(img) != 65536:
            r.v(PROPERTY, 'HmacLubyRackoffPRP', 'bijection', 'collision-in-4-byte-slice', case, '65536 distinct images', len(img))
            r.outcome('lr-slice-collision')
        else:
            r.outcome('lr-slice-injective')
        r.count('lr-4byte-slices')
        r.sample({'prim': 'HmacLubyRackoffPRP', 'message_length': 4, 'inputs': 'all 65536 values of the %s half, other half fixed' % p['vary']}, limit=1)
    elif kind == 'lr2join':
        # the four quarters are injective each; the whole 2-byte domain is checked here once more in one pass
        P = get_prp_implementation('HmacLubyRackoffPRP')
        g = det.rng(seed, 'c15-lr2')
        key = g.randbytes(48)
        prp = P(message_length=2, key_length=48)
        img = {prp(key, x.to_bytes(2, 'big')) for x in range(65536)}
        r['evaluations'] += 65536
        r['transitions'] += 65536
        r['states'] += 1
        if len(img) != 65536:
            r.v(PROPERTY, 'HmacLubyRackoffPRP', 'bijection', 'collision', {'message_length': 2, 'quarter': 'all'}, 65536, len(img))
        r.outcome('lr2-bijective')
        r.sample({'prim': 'HmacLubyRackoffPRP', 'message_length': 2, 'inputs': 'all 65536'})
    elif kind == 'lr':
        P = get_prp_implementation('HmacLubyRackoffPRP')
        ml = p['ml']
        g = det.rng(seed, 'c15-lr', ml)
        for kl, hname in ((48, 'sha1'), (24, 'sha256'), (96, 'sha512')):
            key = g.randbytes(kl)
            prp = P(message_length=ml, key_length=kl, hash_func_name=hname)
            seen = {}
            msgs = [bytes(ml), b'\xff' * ml, bytes(ml - 1) + b'\x01', b'\x01' + bytes(ml - 1)] + [g.randbytes(ml) for _ in range(p['count'])]
            for m in msgs:
                case = {'message_length': ml, 'key_length': kl, 'hash': hname, 'message': m}
                core.note_case(case)
                r['evaluations'] += 1
                r['states'] += 1
                r['transitions'] += 2
                r['nontrivial'] += 1 if any(m) else 0
                try:
                    y = prp(key, m)
                except Exception as e:
                    r.v(PROPERTY, 'HmacLubyRackoffPRP', 'raises', '%s:%s' % (core.exc_site(e), type(e).__name__), case, 'an image of %d bytes' % ml, core.exc_text(e))
                    break
                if len(y) != ml:
                    r.v(PROPERTY, 'HmacLubyRackoffPRP', 'length', 'output', case, ml, len(y))
                if prp(key, m) != y:
                    r.v(PROPERTY, 'HmacLubyRackoffPRP', 'determinism', 'repeat', case, 'same output', 'differs')
                if y in seen and seen[y] != m:
                    r.v(PROPERTY, 'HmacLubyRackoffPRP', 'bijection', 'collision', case, 'distinct outputs', 'collision')
                seen[y] = m
        r.outcome('lr-injective-on-sample')
        r.sample({'prim': 'HmacLubyRackoffPRP', 'message_length': ml, 'inputs': len(msgs)})
    elif kind == 'lrc':
        P = get_prp_implementation('HmacLubyRackoffPRP')
        from toolkit.prp.luby_rackoff_prp import LubyRackoffPRP
        from toolkit.prf.hmac_prf import HmacPRF

        def must_raise(label, f, case):
            r['evaluations'] += 1
            r['states'] += 1
            r['transitions'] += 1
            try:
                f()
                r.v(PROPERTY, 'LubyRackoffPRP', 'contract', label + '-accepted', case, 'ValueError', 'accepted')
            except ValueError:
                r.count('lr-contract-refused')
            except Exception as e:
                r.v(PROPERTY, 'LubyRackoffPRP', 'contract', label + '-wrong-exception', case, 'ValueError', core.exc_text(e))
        for ml in (1, 3, 5, 33):
            must_raise('odd-message-length', lambda: P(message_length=ml, key_length=48), {'message_length': ml})
        for kl in (16, 47, 49, 50):
            must_raise('key-length-not-divisible-by-3', lambda: P(message_length=8, key_length=kl), {'key_length': kl})
        prp = P(message_length=8, key_length=48)
        for kl in (0, 16, 47, 49, 96):
            must_raise('wrong-key-length', lambda: prp(bytes(kl), bytes(8)), {'actual_key_length': kl})
        for ml in (0, 2, 7, 9, 16):
            must_raise('wrong-message-length', lambda: prp(bytes(48), bytes(ml)), {'actual_message_length': ml})
        must_raise('prf-key-length', lambda: LubyRackoffPRP(message_length=8, key_length=48,
                                                            underlying_prf=HmacPRF(output_length=4, message_length=4, key_length=15)), {'prf_key': 15})
        must_raise('prf-in!=out', lambda: LubyRackoffPRP(message_length=8, key_length=48,
                                                         underlying_prf=HmacPRF(output_length=5, message_length=4, key_length=16)), {'prf_out': 5})
        must_raise('prf-half', lambda: LubyRackoffPRP(message_length=8, key_length=48,
                                                      underlying_prf=HmacPRF(output_length=3, message_length=3, key_length=16)), {'prf_in': 3})
        for alias in ('HmacLubyRackoffPRP', 'hmac-luby-rackoff-prp', 'hmac_luby_rackoff_prp'):
            if get_prp_implementation(alias) is not P:
                r.v(PROPERTY, 'prp-lookup', 'alias', alias, {'alias': alias}, 'same class', 'different')
        # several PRP objects with different declared domains alive at once, used in every order after all of them exist
        import itertools
        PB = get_prp_implementation('BitwiseFPEPRP')
        objs = {'lr4': (P(message_length=4, key_length=48), lambda o, k, m: o(bytes([k]) * 48, bytes([m]) * 4), 4),
                'lr8': (P(message_length=8, key_length=24, hash_func_name='sha256'), lambda o, k, m: o(bytes([k]) * 24, bytes([m]) * 8), 8),
                'fpe8': (PB(key_bit_length=128, message_bit_length=8), lambda o, k, m: o(Bitset(k | 1 << 127, 128), Bitset(m, 8)), 8),
                'fpe16': (PB(key_bit_length=192, message_bit_length=16), lambda o, k, m: o(Bitset(k | 1 << 191, 192), Bitset(m, 16)), 16)}
        first = {}
        for order in itertools.permutations(objs):
            for nm in order:
                o, call, n = objs[nm]
                c_ = {'objects_alive': sorted(objs), 'used': nm, 'order': list(order)}
                r['evaluations'] += 1
                try:
                    y = call(o, 7, 9)
                    img = bytes(y) if not isinstance(y, bytes) else y
                    if len(y) != n:
                        r.v(PROPERTY, 'prp-objects', 'length', 'objects-alive-at-once', c_, n, len(y))
                    if first.setdefault(nm, img) != img:
                        r.v(PROPERTY, 'prp-objects', 'determinism', 'objects-alive-at-once', c_, 'same image as the first time', 'differs')
                    r.count('prp-objects-alive-at-once')
                except Exception as e:
                    r.v(PROPERTY, 'prp-objects', 'contract', 'own-valid-input-refused-while-other-objects-exist', c_, 'accepted', core.exc_text(e))
                other = 'lr8' if nm == 'lr4' else 'lr4' if nm == 'lr8' else 'fpe16' if nm == 'fpe8' else 'fpe8'
                must_raise('other-objects-lengths', lambda: objs[other][1](o, 7, 9), dict(c_, lengths_of=other))
        # a pickled copy / a deep copy of a PRP object is the same permutation with the same contract
        import pickle as _pickle, copy as _copy
        for nm, (o, call, n) in objs.items():
            for how, mk in (('pickled', lambda: _pickle.loads(_pickle.dumps(o))), ('deep-copied', lambda: _copy.deepcopy(o))):
                c_ = {'object': nm, 'form': how}
                r['evaluations'] += 1
                try:
                    o2 = mk()
                    y = call(o2, 7, 9)
                    img = bytes(y) if not isinstance(y, bytes) else y
                    if img != first[nm]:
                        r.v(PROPERTY, 'prp-objects', 'determinism', 'object-roundtrip/' + how, c_, 'same image as the original object', 'differs')
                    r.count('prp-object-forms')
                except Exception:
                    r.count('prp-object-not-copyable (not demanded)')
                    continue
                other = 'lr8' if nm == 'lr4' else 'lr4' if nm == 'lr8' else 'fpe16' if nm == 'fpe8' else 'fpe8'
                must_raise('other-objects-lengths/' + how, lambda: objs[other][1](o2, 7, 9), dict(c_, lengths_of=other))
        r.sample({'prim': 'LubyRackoff contracts'})
    det.restore()
    return r


def replay(case, seed):
    if 'key_index' in case and 'n' in case:
        return run_unit({'kind': 'ffx', 'n': case['n'], 'ki': case['key_index'], 'rounds': case.get('rounds'), 'digest': case.get('digest')}, 'quick', seed)['violations']
    if 'n' in case and 'x' in case:
        return run_unit({'kind': 'ffxw', 'n': case['n'], 'count': 20 if not case.get('digest') else 4, 'digest': case.get('digest')}, 'quick', seed)['violations']
    if 'declared' in case or case.get('n') == 6 or case.get('shared_key'):
        return run_unit({'kind': 'fpeprp'}, 'quick', seed)['violations']
    if 'key_history' in case or 'object' in case:
        return run_unit({'kind': 'keyhist'}, 'quick', seed)['violations']
    if 'slice' in case:
        return run_unit({'kind': 'lrslice', 'ki': case['key_index'], 'vary': case['slice'], 'fi': case['fixed_index']}, 'quick', seed)['violations']
    if case.get('message_length') == 2 and 'quarter' in case:
        return run_unit({'kind': 'lr2join'}, 'quick', seed)['violations']
    if 'hash' in case:
        return run_unit({'kind': 'lr', 'ml': case['message_length'], 'count': 200}, 'thorough', seed)['violations']
    return run_unit({'kind': 'lrc'}, 'quick', seed)['violations']

# a subset of the units is executed again in other environments (child interpreters): see core.run_variants
ENV_VARIANTS = [{'name': 'python-O', 'flags': ['-O']}]

def variant_units(tier, seed, name):
    pred = lambda uid, p: p.get('kind') in ('fpeprp', 'lrc')
    return [u for u in units('quick', seed) if pred(u[0], u[1])]

