"""C03 - wire formats and the client/server split (engine E1)."""
import json, copy
from mc import core, det, domains, sse

PROPERTY = 'C03'
ENGINE = 'E1 bounded-exhaustive enumeration of (scheme, configuration point, profile, keyword) through three separate scheme instances'
LEVEL = 'model_checking'
DIRECTED_ADDITIONS = 'tokens and keys generated until the first two bytes of their wire form have taken every value, patterned keys, parties with different object histories, configuration sweep in both directions, server-side parsing with a separately built configuration object, mixed-length identifiers (PiBas)'      # members added during the seeded-change campaign (DESIGN 7); counted under their own vacuity counters

CHUNK = 40


def describe(tier):
    d = _describe(tier)
    d['rule'] = d['rule'] + ' Directed additions: ' + DIRECTED_ADDITIONS + '.'
    return d


def _describe(tier):
    n = 6 if tier == 'quick' else 8
    return {
        'rule': 'case = (scheme, configuration point of G(S) - including every point where a width differs from the default the '
                'fixed-offset parsers could wrongly assume -, every partition of every N<=%d in both orders + boundary profiles <=40, '
                'every stored keyword + 3 absent ones; plus, per configuration point, 10 keys whose bytes follow awkward patterns - trailing LF / CRLF / NUL / space, leading NUL / LF, all-LF, all-space, all-0xff, ASCII digits). The client instance is built from cfg; a SECOND instance built from '
                'json.loads(json.dumps(cfg)) plays the server and sees only EDB.serialize() and Token.serialize(); a THIRD instance '
                '(also from the JSON round trip) reloads the key from Key.serialize() and generates the tokens. Oracle: '
                'Result.deserialize(server_result.serialize()) has content DB.get(w, empty); deserialize(serialize(x)) == x '
                'for key, token, EDB, result. non-trivial = keyword present.' % n,
        'bounds': 'N<=%d exhaustive over partitions' % n,
        'assumptions': ['a configuration that cannot set up is skipped and counted (C01/C08 own it)'],
        'must_be_nonzero': ['key-roundtrip', 'token-roundtrip', 'edb-roundtrip', 'result-roundtrip', 'absent', 'patterned-keys', 'separate-config-object', 'prefix-values-covered/token', 'prefix-values-covered/key'],
    }


def case_list(name, label, cfg, tier):
    n = 6 if tier == 'quick' else 8
    cases = [(p, 6, 'disjoint') for p in domains.profiles(n)]
    cases += [(p, 1, 'shared') for p in domains.profiles(3)]
    if 'param_identifier_size' not in cfg:
        cases += [(p, 6, 'mixed-ids') for p in domains.profiles(5)]
    lens = [v for v in domains.around(sse.special_lengths(name, cfg, tier)) if v <= 40]
    cases += [(p, 6, 'disjoint') for p in domains.boundary_profiles(lens, extra=False)]
    # key material with awkward byte values (a key is bytes, not text): KeyGen is fed a patterned os.urandom
    cases += [([2, 1], 6, 'keypattern:' + pat) for pat in det.KEY_PATTERNS]
    return sse.dedup_valid(name, cfg, cases)


def units(tier, seed):
    return sse.make_units(case_list, tier, CHUNK) + [('sweep/%s' % name, {'sweep': name}) for name in sse.SCHEMES] + [('prefix/%s' % name, {'prefix': name}) for name in sse.SCHEMES]


def run_case(r, seed, name, label, cfg, profile, kwlen, relation, cache=None):
    case = {'scheme': name, 'label': label, 'cfg': cfg, 'profile': profile, 'kwlen': kwlen, 'relation': relation}
    core.note_case(case)
    db, cfg1, g = sse.build_db(seed, name, label, cfg, profile, kwlen, 'disjoint' if relation.startswith('keypattern') else relation)
    absent = [w for _, w in domains.absent_keywords(db, sse.kw_limit(name, cfg), g)][:3]
    det.seed_case(seed, PROPERTY, name, label, tuple(profile), kwlen, relation)
    L = sse.loader(name)
    r['states'] += 1
    try:
        # the three parties must not share their HISTORIES: alternately the index-building client is the long-lived object (used
        # with many keys before) and the reloaded client is brand new, or the other way round; the server is always long-lived
        parity = cache.setdefault('_n', 0) % 2 if cache is not None else 0
        if cache is not None:
            cache['_n'] += 1
        client = sse.shared_scheme(cache, L, cfg1, 'client') if (cache is not None and parity == 0) else L.SSEScheme(cfg1)
        if relation.startswith('keypattern:'):
            det.pattern_urandom(relation.split(':', 1)[1], seed, name, label)
            r.count('patterned-keys')
        key = client.KeyGen()
        det.seed_case(seed, PROPERTY, name, label, tuple(profile), kwlen, relation)
        edb = client.EDBSetup(key, db)
        r['transitions'] += 2
    except Exception as e:
        r.count("setup-raises (C01/C08's subject, skipped here)")
        return

    def bad(kind, site, c, exp, obs):
        r.v(PROPERTY, name, kind, site, c, exp, obs)
        r.outcome(kind + '/' + site)

    # --- the wire: JSON config, serialized key / EDB
    try:
        cfg_wire = json.loads(json.dumps(cfg1))
    except Exception as e:
        bad('config-json', type(e).__name__, case, 'configuration survives JSON', core.exc_text(e)); return
    try:
        if cache is not None:
            server = sse.shared_scheme(cache, L, cfg_wire, 'server')
            client2 = sse.shared_scheme(cache, L, cfg_wire, 'client2') if parity == 1 else L.SSEScheme(copy.deepcopy(cfg_wire))
        else:
            server = L.SSEScheme(cfg_wire)
            client2 = L.SSEScheme(copy.deepcopy(cfg_wire))
    except Exception as e:
        bad('config-rebuild-raises', core.exc_site(e), case, 'scheme instantiates from the JSON round trip', core.exc_text(e)); return
    # the configuration object the server parses wire objects with: its scheme's own, or (every other case) one built separately
    # from the same JSON, as frontend/server does - equal in content, another object
    try:
        server_parse_cfg = server.config if (sum(profile) + len(profile)) % 2 == 0 else L.SSEConfig(copy.deepcopy(cfg_wire))
    except Exception as e:
        bad('config-rebuild-raises', core.exc_site(e), case, 'configuration object builds from the JSON round trip', core.exc_text(e)); return
    if server_parse_cfg is not server.config:
        r.count('separate-config-object')
    kser = key.serialize()
    raw = edb.serialize()
    try:
        key2 = L.SSEKey.deserialize(kser, client2.config)
        r.count('key-roundtrip')
        if not (key2 == key):
            bad('roundtrip-neq', 'key', case, 'deserialize(serialize(key)) == key', 'differs')
    except Exception as e:
        bad('key-deserialize-raises', '%s:%s' % (core.exc_site(e), type(e).__name__), case, 'key reloads', core.exc_text(e)); return
    try:
        edb2 = L.SSEEncryptedDatabase.deserialize(raw, server_parse_cfg)
        r.count('edb-roundtrip')
        if not (edb2 == edb):
            bad('roundtrip-neq', 'edb', case, 'deserialize(serialize(edb)) == edb', 'differs')
    except Exception as e:
        bad('edb-deserialize-raises', '%s:%s' % (core.exc_site(e), type(e).__name__), case, 'EDB reloads', core.exc_text(e)); return
    r['transitions'] += 2
    for w in list(db) + absent:
        c = dict(case, keyword=w)
        r['evaluations'] += 1
        present = w in db
        if present:
            r['nontrivial'] += 1
        else:
            r.count('absent')
        exp = db.get(w, [])
        try:
            tk = client2.TokenGen(key2, w)
            tser = tk.serialize()
            tk2 = L.SSEToken.deserialize(tser, server_parse_cfg)
            r.count('token-roundtrip')
            if not (tk2 == tk):
                bad('roundtrip-neq', 'token', c, 'deserialize(serialize(token)) == token', 'differs')
            # the original client's token must be the same wire bytes (reloaded key produces matching tokens)
            if client.TokenGen(key, w).serialize() != tser:
                bad('token-differs-after-key-reload', 'token', c, 'same token bytes from the reloaded key', 'differs')
            res = server.Search(edb2, tk2)
            rser = res.serialize()
            res2 = L.SSEResult.deserialize(rser, client2.config)
            r.count('result-roundtrip')
            r['transitions'] += 5
            if not (res2 == res):
                bad('roundtrip-neq', 'result', c, 'deserialize(serialize(result)) == result', 'differs')
            got = res2.get_result_list()
        except Exception as e:
            bad('split-raises', '%s:%s' % (core.exc_site(e), type(e).__name__), c, 'search through serialized objects works', core.exc_text(e))
            continue
        if sse.result_ok(name, got, exp):
            r.outcome('ok/' + ('present' if present else 'absent'))
        else:
            bad('result-differs', sse.classify_diff(name, got, exp), c, exp, got)
    if r['states'] % 41 == 1:
        r.sample({'scheme': name, 'cfg_point': label, 'profile': profile, 'wire': ['json(cfg)', 'Key.serialize', 'EDB.serialize', 'Token.serialize', 'Result.serialize']})


def run_sweep(r, seed, name, tier):
    """ALL configuration points of one scheme in ONE process, forwards and then backwards, a few databases each: state that
    outlives a scheme object (class attributes, module-level caches keyed too coarsely) is carried from one configuration
    to the next deterministically, whatever the pool's assignment of units to processes"""
    pts = sse.grid(name, tier)
    for rnd, seq in enumerate((pts, pts[::-1])):
        for label, cfg in seq:
            for prof in ([2, 1], [5], [1, 1, 3]):
                if sse.valid_profile(name, cfg, prof):
                    n0 = len(r['violations'])
                    run_case(r, seed, name, label, cfg, prof, 6, 'disjoint')
                    for v in r['violations'][n0:]:
                        v['case']['sweep'] = True
                    r.count('sweep-cases')


def run_prefix(r, seed, name, tier, only_keyword=None, only_key_index=None):
    """the leading bytes of random material as an enumerated dimension: tokens (and keys) are generated until the first two bytes of
    their serialized form have taken EVERY one of the 65536 values (about 730 000 draws; a wire format that begins with a fixed
    header is recognised after 2000 draws and skipped), and the first object met with each prefix goes through its wire format:
    deserialize(serialize(x)) serializes to the same bytes and equals x.  A format that sniffs its input's first bytes cannot
    hide behind 'one token in 65536'."""
    L = sse.loader(name)
    db = {b'ab': [b'12345678'[:sse.base_cfg(name).get('param_identifier_size', 8)].ljust(sse.base_cfg(name).get('param_identifier_size', 8), b'x')]}
    cfg = sse.finalize_cfg(name, sse.base_cfg(name), db)
    det.seed_case(seed, PROPERTY, 'prefix', name)
    scheme = L.SSEScheme(cfg)
    other = L.SSEScheme(json.loads(json.dumps(cfg)))           # the receiving side: its own configuration object, rebuilt from JSON
    key = scheme.KeyGen()
    cap = 1500000 if (tier != 'quick' or not name.startswith('CGKO06')) else 120000
    for what in ('token', 'key'):
        seen = set()
        n = 0
        fixed_header = False
        while len(seen) < 65536 and n < cap:
            if what == 'token':
                w = b'%07d' % n
                if only_keyword is not None and w != only_keyword:
                    n += 1
                    if n > int(only_keyword) + 1:
                        break
                    continue
                obj = scheme.TokenGen(key, w)
                case = {'scheme': name, 'prefix_coverage': 'token', 'keyword': w}
            else:
                if only_keyword is not None:
                    break
                obj = scheme.KeyGen()
                case = {'scheme': name, 'prefix_coverage': 'key', 'key_index': n}
            n += 1
            raw = obj.serialize()
            r['transitions'] += 1
            pre = raw[:2]
            if pre in seen:
                continue
            seen.add(pre)
            if n == 2000 and len(seen) < 4:
                fixed_header = True
                break
            r['evaluations'] += 1
            try:
                cls = L.SSEToken if what == 'token' else L.SSEKey
                back = cls.deserialize(raw, other.config)
                again = back.serialize()
                same = (back == obj) if type(back).__eq__ is not object.__eq__ else True
            except Exception as e:
                r.v(PROPERTY, name, 'roundtrip-raises', '%s/leading-bytes:%s' % (what, type(e).__name__), dict(case, leading_bytes=pre), 'deserialize(serialize(x)) works', core.exc_text(e))
                break
            if again != raw or not same:
                r.v(PROPERTY, name, 'roundtrip-differs', what + '/leading-bytes', dict(case, leading_bytes=pre), 'the same object', 'differs')
                break
        if fixed_header:
            r.count('prefix-coverage-skipped-fixed-header/' + what)
        else:
            r.count('prefix-values-covered/' + what, len(seen))
            r['states'] += len(seen)
            r['nontrivial'] += 1
            if len(seen) < 65536 and only_keyword is None:
                r['caps'].append('C03 leading-bytes coverage of %s %ss stopped at %d draws: %d of 65536 two-byte prefixes' % (name, what, n, len(seen)))
        r.outcome('prefix/%s/%s' % (what, 'fixed-header' if fixed_header else 'covered'))
    r.sample({'scheme': name, 'leading_bytes_coverage': 'tokens and keys until all 65536 two-byte prefixes were met'}, limit=1)


def run_unit(p, tier, seed):
    r = core.Result()
    if 'prefix' in p:
        run_prefix(r, seed, p['prefix'], tier)
        det.restore()
        return r
    if 'sweep' in p:
        run_sweep(r, seed, p['sweep'], tier)
        det.restore()
        return r
    name, label, cfg = p['scheme'], p['label'], p['cfg']
    cache = {}
    for i, (profile, kwlen, relation) in enumerate(case_list(name, label, cfg, tier)[p['lo']:p['hi']]):
        n0 = len(r['violations'])
        run_case(r, seed, name, label, cfg, profile, kwlen, relation, cache=cache)
        for v in r['violations'][n0:]:
            v['case']['unit'] = core.enc({'tier': tier, 'lo': p['lo'], 'index': i})
    det.restore()
    return r


def replay(case, seed):
    if 'prefix_coverage' in case:
        r = core.Result()
        run_prefix(r, seed, case['scheme'], 'thorough', only_keyword=case.get('keyword'))
        return r['violations']
    if case.get('sweep'):
        full = run_unit({'sweep': case['scheme']}, 'quick', seed)
        return [v for v in full['violations'] if core.dec(v['case']).get('label') == case['label']]
    u = case.get('unit')
    if u:
        full = run_unit({'scheme': case['scheme'], 'label': case['label'], 'cfg': case['cfg'], 'lo': u['lo'], 'hi': u['lo'] + u['index'] + 1}, u['tier'], seed)
        return [v for v in full['violations'] if core.dec(v['case']).get('profile') == case['profile']]
    r = core.Result()
    run_case(r, seed, case['scheme'], case['label'], case['cfg'], case['profile'], case['kwlen'], case['relation'])
    return r['violations']
