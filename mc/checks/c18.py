"""C18 - Bitset against an MSB-first list-of-bits model (engine E1: bounded-exhaustive enumeration)."""
import itertools
from mc import core, det

PROPERTY = 'C18'
ENGINE = 'E1 bounded-exhaustive enumeration of (length, value, operand) against a list-of-bits reference model'
LEVEL = 'model_checking'
DIRECTED_ADDITIONS = 'compositions of operators, aliasing (returned lists modified in place), pickle / copy round trips, byte strings that are too wide / empty / carry leading zero bytes'      # members added during the seeded-change campaign (DESIGN 7); counted under their own vacuity counters



# ------------------------------------------------------------------ reference model: MSB-first list of 0/1
def bits(v, n):
    return [(v >> (n - 1 - i)) & 1 for i in range(n)]


def val(bs):
    r = 0
    for b in bs:
        r = (r << 1) | b
    return r


def m_shl(m, k):
    n = len(m)
    return (m + [0] * k)[k:][:n] if k <= n else [0] * n


def m_shr(m, k):
    n = len(m)
    return ([0] * k + m)[:n]


def m_ext(m, n):
    return [0] * (n - len(m)) + m


def describe(tier):
    d = _describe(tier)
    d['rule'] = d['rule'] + ' Directed additions: ' + DIRECTED_ADDITIONS + '.'
    return d


def _describe(tier):
    full = 8
    return {
        'rule': 'case = (operation, length n, value v[, second operand / shift / k / index / slice]); exhaustive: every v for every '
                'n in 0..%d, every ordered operand pair of such for + & | ^ ==, every shift 0..n+2, every k 0..n (+ n+1, n+2 refused), '
                'every index, every slice with start/stop/step in {None,-9..9} (n<=5; boundary set for n 6..8 in quick); beyond: '
                'n in 9..300 with values {0,1,2^k-1,2^k,2^k+1 : k<=n} and DRBG values; constructor without length for '
                '2^k-1,2^k,2^k+1, k<=300; halving helpers for n 0..64; compositions: every unary operation applied to every first-level RESULT (of ~, <<, >>, higher, lower, halving, &, |, ^, +) for all operands of length 1..6. non-trivial = case whose model answer is not the zero/empty '
                'vector' % full,
        'bounds': 'lengths 0..8 exhaustive, 9..300 boundary+DRBG values',
        'assumptions': ['and/or/xor of different lengths are right-aligned (zero-extended on the left) in the model',
                        'negative integer indices, __setitem__ and int right operands are outside the property (DESIGN 4/C18)'],
        'must_be_nonzero': ['ctor-nolength', 'concat', 'slice', 'half-left', 'half-int-left', 'compose-first', 'aliasing-cases'],
    }


def units(tier, seed):
    us = []
    for n in range(0, 9):
        us.append(('unary-n%d' % n, {'kind': 'unary', 'n': n}))
    for n1 in range(0, 9):
        us.append(('binary-n%d' % n1, {'kind': 'binary', 'n1': n1}))
    step = 24 if tier == 'quick' else 8
    for lo in range(9, 301, step):
        us.append(('wide-%d' % lo, {'kind': 'wide', 'lo': lo, 'hi': min(lo + step, 301), 'dense': tier != 'quick'}))
    for n in range(1, 7):
        us.append(('compose-n%d' % n, {'kind': 'compose', 'n': n}))
    us.append(('nolength', {'kind': 'nolength', 'kmax': 300}))
    us.append(('half', {'kind': 'half', 'nmax': 64}))
    us.append(('aliasing', {'kind': 'aliasing'}))
    return us


class Ck:
    def __init__(self, r):
        self.r = r

    def eq(self, op, case, got_bs, exp_bits):
        """compare a Bitset result with the model bits (value and length)"""
        r = self.r
        r['evaluations'] += 1
        r['transitions'] += 1
        r.count(op)
        if any(exp_bits):
            r['nontrivial'] += 1
        try:
            gv, gl = int(got_bs), len(got_bs)
        except Exception as e:
            r.v(PROPERTY, 'Bitset', op, 'result-unusable', case, (val(exp_bits), len(exp_bits)), core.exc_text(e)); return
        if gv != val(exp_bits):
            r.v(PROPERTY, 'Bitset', op, 'value', case, (val(exp_bits), len(exp_bits)), (gv, gl))
        elif gl != len(exp_bits):
            r.v(PROPERTY, 'Bitset', op, 'length', case, (val(exp_bits), len(exp_bits)), (gv, gl))

    def same(self, op, case, got, exp):
        r = self.r
        r['evaluations'] += 1
        r['transitions'] += 1
        r.count(op)
        if exp:
            r['nontrivial'] += 1
        if got != exp or type(got) is not type(exp):
            r.v(PROPERTY, 'Bitset', op, 'value', case, exp, got)

    def call(self, op, case, f, exp_bits):
        try:
            got = f()
        except Exception as e:
            self.r['evaluations'] += 1
            self.r.v(PROPERTY, 'Bitset', op, 'raises', case, (val(exp_bits), len(exp_bits)), core.exc_text(e))
            return
        self.eq(op, case, got, exp_bits)

    def callsame(self, op, case, f, exp):
        try:
            got = f()
        except Exception as e:
            self.r['evaluations'] += 1
            self.r.v(PROPERTY, 'Bitset', op, 'raises', case, exp, core.exc_text(e))
            return
        self.same(op, case, got, exp)

    def refused(self, op, case, f):
        r = self.r
        r['evaluations'] += 1
        r['transitions'] += 1
        r.count(op + '-refused')
        try:
            got = f()
        except ValueError:
            return
        except Exception as e:
            r.v(PROPERTY, 'Bitset', op, 'wrong-exception', case, 'ValueError', core.exc_text(e)); return
        r.v(PROPERTY, 'Bitset', op, 'accepted', case, 'ValueError', repr(got))


SL_FULL = [None] + list(range(-9, 10))
STEPS = [None] + [s for s in range(-9, 10) if s != 0]


def unary_ops(ck, Bitset, v, n, slices_full):
    m = bits(v, n)
    c = {'n': n, 'v': v}
    if n == 0:
        b = Bitset(0, 0)
    else:
        b = Bitset(v, n)
    ck.eq('ctor-int', c, b, m)
    if n:
        by = v.to_bytes((n + 7) // 8, 'big')
        ck.call('ctor-bytes', c, lambda: Bitset(by, n), m)
        ck.call('ctor-bitset', c, lambda: Bitset(Bitset(v, n), n), m)
        if v.bit_length() > 0:
            for short_n in range(1, v.bit_length()):
                ck.refused('ctor-too-wide', dict(c, length=short_n), lambda: Bitset(v, short_n))
                # the same too-wide value handed in as bytes: minimal width and with leading zero bytes
                for extra in (0, 1):
                    by2 = v.to_bytes((v.bit_length() + 7) // 8 + extra, 'big')
                    ck.refused('ctor-bytes-too-wide', dict(c, length=short_n, byte_string=by2), lambda: Bitset(by2, short_n))
        # a byte string with leading zero bytes still fits - and the Bitset built from it is the same bit string in every
        # observation, bytes() included
        by3 = b'\x00\x00' + v.to_bytes((n + 7) // 8, 'big')
        ck.call('ctor-bytes-leading-zero-bytes', dict(c, byte_string=by3), lambda: Bitset(by3, n), m)
        ck.callsame('bytes-after-ctor-bytes-leading-zero-bytes', dict(c, byte_string=by3), lambda: bytes(Bitset(by3, n)), v.to_bytes((n + 7) // 8, 'big'))
    # copies and pickles are the same bit string
    import pickle as _pickle, copy as _copy
    for how, f_ in (('pickle', lambda: _pickle.loads(_pickle.dumps(b))), ('pickle-protocol-2', lambda: _pickle.loads(_pickle.dumps(b, 2))),
                    ('copy', lambda: _copy.copy(b)), ('deepcopy', lambda: _copy.deepcopy(b))):
        try:
            got_ = f_()
        except Exception:
            ck.r.count('bitset-not-copyable (not demanded)')      # that a Bitset can be pickled at all is not part of the property
            continue
        ck.eq('roundtrip-' + how, c, got_, m)
    if v == 0:
        # the empty byte string is the value 0
        ck.call('ctor-empty-bytes', c, lambda: Bitset(b'', n) if n else Bitset(b''), m if n else [])
    ck.callsame('int', c, lambda: int(b), v)
    ck.callsame('len', c, lambda: len(b), n)
    ck.callsame('bit_length', c, lambda: b.bit_length(), n)
    ck.callsame('str', c, lambda: str(b), ''.join(map(str, m)))
    ck.callsame('bytes', c, lambda: bytes(b), v.to_bytes((n + 7) // 8, 'big'))
    ck.callsame('iter', c, lambda: list(b), [bool(x) for x in m])
    ck.callsame('iter', c, lambda: list(iter(b)), [bool(x) for x in m])
    for i in range(n):
        ck.callsame('index', dict(c, i=i), lambda: b[i], bool(m[i]))
    ck.call('invert', c, lambda: ~b, [1 - x for x in m])
    for k in range(0, n + 3):
        ck.call('lshift', dict(c, k=k), lambda: b << k, m_shl(m, k))
        ck.call('rshift', dict(c, k=k), lambda: b >> k, m_shr(m, k))
    for k in range(0, n + 1):
        ck.call('higher', dict(c, k=k), lambda: b.get_higher_bits(k), m[:k])
        ck.call('lower', dict(c, k=k), lambda: b.get_lower_bits(k), m[n - k:])
    for k in (n + 1, n + 2):
        ck.refused('higher-k>len', dict(c, k=k), lambda: b.get_higher_bits(k))
        ck.refused('lower-k>len', dict(c, k=k), lambda: b.get_lower_bits(k))
    if slices_full:
        starts = stops = SL_FULL
        steps = STEPS
    else:
        starts = stops = sorted({None, -n - 1, -n, -1, 0, 1, n - 1, n, n + 1}, key=lambda x: (x is not None, x))
        steps = [None, 1, 2, 3, -1, -2, -3]
    mb = [bool(x) for x in m]
    for s in itertools.product(starts, stops, steps):
        sl = slice(*s)
        ck.callsame('slice', dict(c, slice=list(s)), lambda: b[sl], mb[sl])
    # the value survives every read above
    ck.eq('unchanged-after-reads', c, b, m)


def run_unit(p, tier, seed):
    from toolkit.bits import Bitset
    from toolkit.bits_utils import half_bits, half_bits_not_padding
    r = core.Result()
    ck = Ck(r)
    kind = p['kind']
    if kind == 'unary':
        n = p['n']
        for v in range(1 << n):
            core.note_case({'n': n, 'v': v})
            unary_ops(ck, Bitset, v, n, slices_full=(n <= 5 or tier != 'quick'))
            r['states'] += 1
        r.sample({'op': 'all unary operations', 'n': n, 'values': 'all %d' % (1 << n)})
    elif kind == 'binary':
        n1 = p['n1']
        for v1 in range(1 << n1):
            a = Bitset(v1, n1) if n1 else Bitset(0, 0)
            m1 = bits(v1, n1)
            for n2 in range(0, 9):
                for v2 in range(1 << n2):
                    b = Bitset(v2, n2) if n2 else Bitset(0, 0)
                    m2 = bits(v2, n2)
                    c = {'n1': n1, 'v1': v1, 'n2': n2, 'v2': v2}
                    core.note_case(c)
                    r['states'] += 1
                    ck.call('concat', c, lambda: a + b, m1 + m2)
                    ck.call('concat', c, lambda: a.concat(b), m1 + m2)
                    try:
                        ab = a + b
                        ck.eq('concat-higher', c, ab.get_higher_bits(n1), m1)
                        ck.eq('concat-lower', c, ab.get_lower_bits(n2), m2)
                        ck.same('concat-higher-eq', c, ab.get_higher_bits(n1) == a, True)
                        ck.same('concat-lower-eq', c, ab.get_lower_bits(n2) == b, True)
                    except Exception as e:
                        r.v(PROPERTY, 'Bitset', 'concat-split', 'raises', c, 'a, b', core.exc_text(e))
                    w = max(n1, n2)
                    e1, e2 = m_ext(m1, w), m_ext(m2, w)
                    ck.call('and', c, lambda: a & b, [x & y for x, y in zip(e1, e2)])
                    ck.call('or', c, lambda: a | b, [x | y for x, y in zip(e1, e2)])
                    ck.call('xor', c, lambda: a ^ b, [x ^ y for x, y in zip(e1, e2)])
                    ck.callsame('eq', c, lambda: a == b, m1 == m2)
                    ck.callsame('ne', c, lambda: a != b, m1 != m2)
        r.sample({'op': '+ & | ^ == !=', 'n1': n1, 'second operand': 'every value of every length 0..8'})
    elif kind == 'compose':
        # operations applied to the RESULTS of other operations (not to freshly constructed values): every first-level
        # result of every operator on every operand (pair) of length n, then every unary operation on it
        n = p['n']
        vals = range(1 << n)
        firsts = []          # (description, Bitset result, model bits)
        for v1 in vals:
            a = Bitset(v1, n)
            m1 = bits(v1, n)
            firsts.append((('~', v1), ~a, [1 - x for x in m1]))
            for k in range(0, n + 1):
                firsts.append((('<<', v1, k), a << k, m_shl(m1, k)))
                firsts.append((('>>', v1, k), a >> k, m_shr(m1, k)))
                firsts.append((('higher', v1, k), a.get_higher_bits(k), m1[:k]))
                firsts.append((('lower', v1, k), a.get_lower_bits(k), m1[n - k:]))
            hl = (n + 1) // 2
            L, R = half_bits(a)
            firsts.append((('half-left', v1), L, m_ext(m1[:n - hl], hl)))
            firsts.append((('half-right', v1), R, m1[n - hl:]))
            L2, R2 = half_bits_not_padding(a)
            firsts.append((('half-nopad-left', v1), L2, m1[:n - hl]))
            for v2 in vals:
                if n > 4 and (v2 * 7 + v1) % 3:
                    continue
                b = Bitset(v2, n)
                m2 = bits(v2, n)
                firsts.append((('&', v1, v2), a & b, [x & y for x, y in zip(m1, m2)]))
                firsts.append((('|', v1, v2), a | b, [x | y for x, y in zip(m1, m2)]))
                firsts.append((('^', v1, v2), a ^ b, [x ^ y for x, y in zip(m1, m2)]))
                firsts.append((('+', v1, v2), a + b, m1 + m2))
        for desc, x, m in firsts:
            w = len(m)
            c = {'compose': [str(t) for t in desc], 'n': n}
            core.note_case(c)
            r['states'] += 1
            ck.eq('compose-first', c, x, m)
            ck.call('compose-invert', c, lambda: ~x, [1 - t for t in m])
            for k in sorted(t for t in {0, 1, w // 2, w} if t <= w):
                ck.call('compose-lshift', dict(c, k=k), lambda: x << k, m_shl(m, k))
                ck.call('compose-rshift', dict(c, k=k), lambda: x >> k, m_shr(m, k))
                ck.call('compose-higher', dict(c, k=k), lambda: x.get_higher_bits(k), m[:k])
                ck.call('compose-lower', dict(c, k=k), lambda: x.get_lower_bits(k), m[w - k:])
            other = Bitset(val(m) ^ ((1 << w) - 1 if w else 0), w) if w else Bitset(0, 0)
            mo = [1 - t for t in m]
            ck.call('compose-and', c, lambda: x & other, [p_ & q_ for p_, q_ in zip(m, mo)])
            ck.call('compose-xor', c, lambda: x ^ other, [p_ ^ q_ for p_, q_ in zip(m, mo)])
            ck.call('compose-concat', c, lambda: x + x, m + m)
            ck.callsame('compose-str', c, lambda: str(x), ''.join(map(str, m)))
            ck.callsame('compose-bytes', c, lambda: bytes(x), val(m).to_bytes((w + 7) // 8, 'big'))
            ck.callsame('compose-eq', c, lambda: x == (Bitset(val(m), w) if w else Bitset(0, 0)), True)
            ck.callsame('compose-iter', c, lambda: list(x), [bool(t) for t in m])
            if w:
                hl2 = (w + 1) // 2
                try:
                    A1, B1 = half_bits(x)
                    ck.eq('compose-half-left', c, A1, m_ext(m[:w - hl2], hl2))
                    ck.eq('compose-half-right', c, B1, m[w - hl2:])
                except Exception as e:
                    r.v(PROPERTY, 'bits_utils', 'compose-half', 'raises', c, 'two halves', core.exc_text(e))
        r.sample({'op': 'operations on results of operations', 'n': n, 'first_level_results': len(firsts)})
    elif kind == 'wide':
        g = det.rng(seed, 'c18-wide', p['lo'])
        for n in range(p['lo'], p['hi']):
            vals = {0, 1, (1 << n) - 1, 1 << (n - 1), (1 << (n - 1)) + 1, (1 << (n - 1)) - 1}
            ks = range(1, n) if p['dense'] else sorted({1, 2, 7, 8, 9, n // 2, n - 2, n - 1} | {k for k in range(40, n, 8)})
            for k in ks:
                if 0 < k < n:
                    vals.update({(1 << k) - 1, 1 << k, (1 << k) + 1})
            vals.update(g.getrandbits(n) for _ in range(3))
            vals = sorted(x for x in vals if x.bit_length() <= n)
            for v in vals:
                c = {'n': n, 'v': v}
                core.note_case(c)
                r['states'] += 1
                m = bits(v, n)
                b = Bitset(v, n)
                ck.eq('ctor-int', c, b, m)
                ck.call('ctor-bytes', c, lambda: Bitset(v.to_bytes((n + 7) // 8, 'big'), n), m)
                ck.callsame('bytes', c, lambda: bytes(b), v.to_bytes((n + 7) // 8, 'big'))
                import pickle as _pickle, copy as _copy
                for how_, f_ in (('pickle', lambda: _pickle.loads(_pickle.dumps(b))), ('deepcopy', lambda: _copy.deepcopy(b))):
                    try:
                        got_ = f_()
                    except Exception:
                        r.count('bitset-not-copyable (not demanded)')
                        continue
                    ck.eq('roundtrip-' + how_, c, got_, m)
                ck.callsame('str', c, lambda: str(b), ''.join(map(str, m)))
                ck.callsame('iter', c, lambda: list(b), [bool(x) for x in m])
                ck.call('invert', c, lambda: ~b, [1 - x for x in m])
                if v.bit_length() > 1:
                    ck.refused('ctor-too-wide', dict(c, length=v.bit_length() - 1), lambda: Bitset(v, v.bit_length() - 1))
                for k in sorted({0, 1, n // 2, n - 1, n, g.randrange(n + 1)}):
                    ck.call('higher', dict(c, k=k), lambda: b.get_higher_bits(k), m[:k])
                    ck.call('lower', dict(c, k=k), lambda: b.get_lower_bits(k), m[n - k:])
                    ck.call('lshift', dict(c, k=k), lambda: b << k, m_shl(m, k))
                    ck.call('rshift', dict(c, k=k), lambda: b >> k, m_shr(m, k))
                ck.refused('higher-k>len', dict(c, k=n + 1), lambda: b.get_higher_bits(n + 1))
                ck.refused('lower-k>len', dict(c, k=n + 1), lambda: b.get_lower_bits(n + 1))
                for i in sorted({0, 1, n // 2, n - 1}):
                    ck.callsame('index', dict(c, i=i), lambda: b[i], bool(m[i]))
                mb = [bool(x) for x in m]
                for s in ((None, None, None), (None, None, -1), (1, None, 2), (-3, None, None), (None, -3, None), (n // 2, n + 5, 3)):
                    sl = slice(*s)
                    ck.callsame('slice', dict(c, slice=list(s)), lambda: b[sl], mb[sl])
                # binary ops against a second wide operand of another length
                n2 = max(1, (n * 2) // 3)
                v2 = g.getrandbits(n2)
                o = Bitset(v2, n2)
                m2 = bits(v2, n2)
                c2 = dict(c, n2=n2, v2=v2)
                ck.call('concat', c2, lambda: b + o, m + m2)
                ck.call('concat-higher', c2, lambda: (b + o).get_higher_bits(n), m)
                ck.call('concat-lower', c2, lambda: (b + o).get_lower_bits(n2), m2)
                e2 = m_ext(m2, n)
                ck.call('and', c2, lambda: b & o, [x & y for x, y in zip(m, e2)])
                ck.call('or', c2, lambda: b | o, [x | y for x, y in zip(m, e2)])
                ck.call('xor', c2, lambda: b ^ o, [x ^ y for x, y in zip(m, e2)])
                ck.callsame('eq', c2, lambda: b == Bitset(v, n), True)
                ck.callsame('eq', c2, lambda: b == o, m == m2)
        r.sample({'op': 'wide', 'n': p['lo'], 'values': '0,1,2^k-1,2^k,2^k+1 and 3 DRBG values'})
    elif kind == 'nolength':
        seen = set()
        for k in range(0, p['kmax'] + 1):
            for v in ((1 << k) - 1, 1 << k, (1 << k) + 1):
                if v <= 0 or v in seen:
                    continue
                seen.add(v)
                c = {'v_is': '2^%d%+d' % (k, v - (1 << k)), 'bit_length': v.bit_length()}
                core.note_case(c)
                r['states'] += 1
                m = bits(v, v.bit_length())
                ck.call('ctor-nolength', c, lambda: Bitset(v), m)
                ck.call('ctor-nolength-bytes', c, lambda: Bitset(v.to_bytes((v.bit_length() + 7) // 8, 'big')), m)
        ck.call('ctor-nolength', {'v': 0}, lambda: Bitset(0), [])
        r.sample({'op': 'Bitset(v) without length', 'v': '2^k-1, 2^k, 2^k+1 for k in 0..%d' % p['kmax']})
    elif kind == 'half':
        g = det.rng(seed, 'c18-half')
        for n in range(0, p['nmax'] + 1):
            vals = sorted({0, (1 << n) - 1, 1 << max(n - 1, 0), 1, g.getrandbits(n) if n else 0, g.getrandbits(n) if n else 0})
            if n <= 8:
                vals = range(1 << n)
            for v in vals:
                if v.bit_length() > n:
                    continue
                m = bits(v, n)
                hl = (n + 1) // 2
                c = {'n': n, 'v': v}
                core.note_case(c)
                r['states'] += 1
                b = Bitset(v, n) if n else Bitset(0, 0)
                for name, f, pad in (('half', half_bits, True), ('half-nopad', half_bits_not_padding, False)):
                    try:
                        L, R = f(b)
                    except Exception as e:
                        r.v(PROPERTY, 'bits_utils', name, 'raises', c, 'two halves', core.exc_text(e)); continue
                    expL = m[:n - hl]
                    if pad:
                        expL = m_ext(expL, hl)
                    ck.eq(name + '-left', c, L, expL)
                    ck.eq(name + '-right', c, R, m[n - hl:])
                # int argument: minimal width
                if v > 0:
                    w = v.bit_length()
                    mm = bits(v, w)
                    h2 = (w + 1) // 2
                    for name, f, pad in (('half-int', half_bits, True), ('half-nopad-int', half_bits_not_padding, False)):
                        try:
                            L, R = f(v)
                        except Exception as e:
                            r.v(PROPERTY, 'bits_utils', name, 'raises', c, 'two halves', core.exc_text(e)); continue
                        expL = mm[:w - h2]
                        if pad:
                            expL = m_ext(expL, h2)
                        ck.eq(name + '-left', c, L, expL)
                        ck.eq(name + '-right', c, R, mm[w - h2:])
        r.sample({'op': 'half_bits / half_bits_not_padding', 'n': '0..%d' % p['nmax']})
    elif kind == 'aliasing':
        # what an operation hands out must not be a window into the Bitset: every returned list is modified in place (extended,
        # reversed, emptied, overwritten) and the Bitset is observed again afterwards - every observation as before
        def observe(b):
            out = {}
            for name, f in (('int', lambda: int(b)), ('len', lambda: len(b)), ('str', lambda: str(b)), ('list', lambda: list(b)), ('slice-all', lambda: list(b[:])),
                            ('slice-rev', lambda: list(b[::-1])), ('iter', lambda: [x for x in b]), ('bytes', lambda: bytes(b)), ('first', lambda: b[0] if len(b) else None)):
                try:
                    out[name] = f()
                except Exception as e:
                    out[name] = 'raises ' + type(e).__name__
            return out
        getters = [('x[:]', lambda b: b[:]), ('x[0:len]', lambda b: b[0:len(b)]), ('x[::1]', lambda b: b[::1]), ('x[::-1]', lambda b: b[::-1]), ('x[1:]', lambda b: b[1:]),
                   ('x[:-1]', lambda b: b[:-1]), ('list(x)', lambda b: list(b)), ('x[::2]', lambda b: b[::2])]
        mutators = [('extend', lambda l: l.extend([True, False, True])), ('reverse', lambda l: l.reverse()), ('clear', lambda l: l.clear()),
                    ('setitem', lambda l: l.__setitem__(0, not l[0]) if l else None), ('pop', lambda l: l.pop() if l else None), ('iadd', lambda l: l.__iadd__([True]))]
        for n in range(0, 7):
            for v in range(1 << n):
                m = bits(v, n)
                for gname, get in getters:
                    for mname, mut in mutators:
                        b = Bitset(v, n)
                        before = observe(b)
                        c = {'n': n, 'v': v, 'taken': gname, 'then': mname}
                        core.note_case(c)
                        r['evaluations'] += 1
                        r['transitions'] += 2
                        r['states'] += 1
                        try:
                            got = get(b)
                            first = list(got) if isinstance(got, list) else got
                            if isinstance(got, list):
                                mut(got)
                        except Exception as e:
                            r.v(PROPERTY, 'Bitset', 'aliasing', 'raises', c, 'a list', core.exc_text(e))
                            continue
                        after = observe(b)
                        r.count('aliasing-cases')
                        if after != before:
                            diff = sorted(k for k in before if before[k] != after[k])
                            r.v(PROPERTY, 'Bitset', 'aliasing', 'bitset-changed-through-returned-object', c, 'observations unchanged', 'changed: %s' % diff)
                            r.outcome('aliased')
                        # a second take is again the model's answer, not the modified first one
                        again = get(b)
                        if isinstance(again, list) and isinstance(first, list) and again != first:
                            r.v(PROPERTY, 'Bitset', 'aliasing', 'second-take-differs', c, first, again)
        r.outcome('no-aliasing')
        r.sample({'op': 'returned lists modified in place, Bitset observed again', 'n': '0..6', 'getters': [g for g, _ in getters], 'mutators': [m_ for m_, _ in mutators]})
    # every operation kind is an observed outcome class
    for k in list(r['counters']):
        if not k.startswith('suppressed'):
            r['outcomes'][k] += r['counters'][k]
    return r


def replay(case, seed):
    """re-run the unit family that contains the case, restricted to that case"""
    from toolkit.bits import Bitset
    from toolkit.bits_utils import half_bits, half_bits_not_padding
    r = core.Result()
    ck = Ck(r)
    if 'compose' in case:
        return run_unit({'kind': 'compose', 'n': case['n']}, 'quick', seed)['violations']
    if 'v_is' in case:
        return run_unit({'kind': 'nolength', 'kmax': 300}, 'quick', seed)['violations']
    if 'n1' in case:
        full = run_unit({'kind': 'binary', 'n1': case['n1']}, 'quick', seed) if case['n1'] <= 8 else None
        return full['violations'] if full else []
    n = case.get('n', 0)
    if n <= 8:
        unary_ops(ck, Bitset, case.get('v', 0), n, True)
        r2 = run_unit({'kind': 'half', 'nmax': 8}, 'quick', seed)
        return r['violations'] + r2['violations']
    lo = n
    r3 = run_unit({'kind': 'wide', 'lo': lo, 'hi': lo + 1, 'dense': True}, 'thorough', seed)
    r4 = run_unit({'kind': 'half', 'nmax': 64}, 'quick', seed)
    return r3['violations'] + r4['violations']

# a subset of the units is executed again in other environments (child interpreters): see core.run_variants
ENV_VARIANTS = [{'name': 'python-O', 'flags': ['-O']}]

def variant_units(tier, seed, name):
    pred = lambda uid, p: (p.get('kind') == 'unary' and p.get('n', 9) <= 4) or p.get('kind') == 'nolength'
    return [u for u in units('quick', seed) if pred(u[0], u[1])]

