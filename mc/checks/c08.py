"""C08 - a configuration is either refused loudly or yields a correct scheme (engine E1)."""
import itertools, copy
from mc import core, det, domains, sse

PROPERTY = 'C08'
ENGINE = 'E1 bounded-exhaustive enumeration of configuration dictionaries (single, pairwise%s departures over the full value domain, deletions, primitive names) x valid databases'
LEVEL = 'model_checking'
DIRECTED_ADDITIONS = 'KiB-sized blocks (B = 600, identifier size 128), the empty configuration as dict / OrderedDict / defaultdict'      # members added during the seeded-change campaign (DESIGN 7); counted under their own vacuity counters

CHUNK = 120

LEN = [8, 16, 20, 24, 32, 48, 0, -1, 2.5]
PRF = ['HmacPRF', 'hmac-prf', 'hmac_prf', 'nope', 'AES-CBC', 'shake_128']
SKE = ['AES-CBC', 'aes_cbc', 'aescbc', 'nope', 'HmacPRF', 'shake_128']
PRP = ['BitwiseFPEPRP', 'bitwise-fpe-prp', 'HmacLubyRackoffPRP', 'nope', 'AES-CBC', 'shake_128']
HASH = ['SHA1', 'sha256', 'md5', 'sha512', 'shake_128', 'nope', 'HmacPRF']
IDS = [1, 2, 8, 16, 17, 128, 0, -1]
BLK = [1, 2, 3, 64, 600, 0, -1]          # 600 x 16 or 64 x 128 bytes: one block (one AES message) of several KiB

FIELDS = {
    'CJJ14.PiBas': {'param_lambda': LEN, 'prf_f_output_length': LEN, 'prf_f': PRF, 'ske': SKE},
    'CJJ14.PiPack': {'param_lambda': LEN, 'prf_f_output_length': LEN, 'param_B': BLK, 'param_identifier_size': IDS, 'prf_f': PRF, 'ske': SKE},
    'CJJ14.PiPtr': {'param_lambda': LEN, 'prf_f_output_length': LEN, 'param_B': BLK, 'param_b': BLK, 'param_identifier_size': IDS,
                    'prf_f': PRF, 'ske': SKE},
    'CJJ14.Pi2Lev': {'param_lambda': LEN, 'prf_f_output_length': LEN, 'param_B': BLK, 'param_b': BLK, 'param_B_prime': BLK,
                     'param_b_prime': BLK, 'param_identifier_size': IDS, 'prf_f': PRF, 'ske': SKE},
    'CT14.Pi': {'param_k': LEN, 'param_k_prime': LEN, 'param_l': LEN, 'param_identifier_size': IDS, 'prf_f': PRF, 'prf_f_prime': PRF, 'ske': SKE},
    'ANSS16.Scheme3': {'param_lambda': LEN, 'param_k': LEN, 'param_k_prime': LEN, 'param_l': LEN, 'param_l_prime': LEN,
                       'param_identifier_size': IDS, 'prf': PRF, 'ske': SKE},
    'DP17.Pi': {'param_lambda': LEN, 'param_actual_storage_level_ratio': [0.2, 0.5, 1.0, 0, -0.5, 1.5, 2], 'param_L': [1, 2, 3, 0, -1],
                'param_identifier_size': IDS, 'rnd': SKE, 'prf_f': PRF, 'hash_h': HASH},
    'CGKO06.SSE1': {'param_k': LEN, 'param_l': [4, 8, 16, 32, 0, -1, 2.5], 'param_s': [1, 2, 4, 5, 16, 64, 0, -1],
                    'param_dictionary_size': [0, 1, 2, 8, 64, -2], 'param_identifier_size': IDS,
                    'prf_f': PRF, 'prp_pi': PRP, 'prp_psi': PRP, 'ske1': SKE, 'ske2': SKE},
    'CGKO06.SSE2': {'param_k': LEN, 'param_l': [4, 8, 16, 32, 0, -1, 2.5], 'param_n_extra': [0, 3, -1, -100], 'param_max_file_size': [0, 1, 64, 300, -1],
                    'param_identifier_size': IDS, 'prp_pi': PRP, 'ske': SKE},
}

PROFILES = [[1], [2, 1], [3, 3, 1], [5], [1, 1, 1, 1]]


def describe(tier):
    d = _describe(tier)
    d['rule'] = d['rule'] + ' Directed additions: ' + DIRECTED_ADDITIONS + '.'
    return d


def _describe(tier):
    return {
        'rule': 'case = (scheme, configuration dictionary, database profile); configuration dictionaries: the small valid base point, every '
                'single-field and every pairwise departure over the full value domain of each field (length fields {8,16,20,24,32,48,0,-1,2.5}, '
                'block/capacity/locality/ratio fields small and boundary values, every primitive name in {valid aliases, wrong name, a name of '
                'another primitive kind, shake_128})%s, and every single-field deletion; x 5 database profiles valid for that configuration '
                '(identifier size and keyword length follow the configuration, SSE-2 file count and SSE-1 capacities respected). Oracle: an '
                'exception in SSEConfig/SSEScheme/KeyGen/EDBSetup/TokenGen/Search, or else every stored keyword and one absent keyword '
                'answer correctly; a deleted field that the scheme needs must be refused by SSEConfig(...) itself. non-trivial = configuration '
                'point that was NOT refused.' % (' and every triple of length-field departures' if tier != 'quick' else ''),
        'bounds': 'single + pairwise departures (thorough: + length-field triples); 5 profiles per point',
        'assumptions': ['which exception type is raised is not demanded; unusual-but-working configurations need not be refused'],
        'must_be_nonzero': ['accepted-and-correct', 'refused@config', 'refused@setup', 'deletions'],
    }


def points(name, tier):
    """list of (label, cfg-dict-or-deletion).  Deterministic order, simplest first."""
    base = sse.base_cfg(name)
    fields = FIELDS[name]
    pts = [('base', base, None)]
    names = list(fields)
    for f in names:
        for v in fields[f]:
            pts.append(('%s=%r' % (f, v), dict(base, **{f: v}), None))
    for f1, f2 in itertools.combinations(names, 2):
        for v1 in fields[f1]:
            for v2 in fields[f2]:
                pts.append(('%s=%r,%s=%r' % (f1, v1, f2, v2), dict(base, **{f1: v1, f2: v2}), None))
    if tier != 'quick':
        lens = [f for f in names if fields[f] is LEN]
        for fs in itertools.combinations(lens, 3):
            for vs in itertools.product([8, 16, 20, 24, 32], repeat=3):
                pts.append((','.join('%s=%r' % fv for fv in zip(fs, vs)), dict(base, **dict(zip(fs, vs))), None))
    for f in list(base):
        d = dict(base)
        del d[f]
        pts.append(('del ' + f, d, f))
    if name == 'CGKO06.SSE2':
        d = dict(base)
        pts.append(('del param_n', d, 'param_n'))
    pts.append(('del everything', {}, 'ALL'))
    return pts


def units(tier, seed):
    us = []
    for name in sse.SCHEMES:
        n = len(points(name, tier))
        for k in range(0, n, CHUNK):
            us.append(('%s/%d' % (name, k), {'scheme': name, 'lo': k, 'hi': k + CHUNK}))
    return us


def make_db_for(name, cfg, prof, g):
    # a database is valid for a configuration only if its identifiers have exactly the configured size and its
    # keywords respect the configured keyword-length limit; if the configuration admits no such database there is
    # nothing the property demands beyond what the configuration build itself does
    ids = cfg.get('param_identifier_size', 8) if 'param_identifier_size' in FIELDS[name] else 8
    if 'param_identifier_size' not in cfg and 'param_identifier_size' in FIELDS[name]:
        ids = 8          # deleted field: a scheme that works without it cannot depend on the size
    if not isinstance(ids, int) or isinstance(ids, bool) or ids <= 0:
        return None
    kl = 6
    if name in ('CGKO06.SSE1', 'CGKO06.SSE2'):
        l = cfg.get('param_l', 8)
        if not isinstance(l, int) or isinstance(l, bool) or l <= 0:
            return None
        kl = min(6, l)
    if ids == 1 and max(prof) > 255:
        return None
    return domains.make_db(prof, ids, kl, g, 'disjoint')


def respects_capacity(name, cfg, prof):
    try:
        if name == 'CGKO06.SSE1':
            s, d = cfg.get('param_s'), cfg.get('param_dictionary_size')
            if isinstance(s, int) and s > 0 and sum(prof) >= s:
                return False
            if isinstance(d, int) and d >= 0 and len(prof) > d:
                return False
        if name == 'CJJ14.Pi2Lev':
            B, Bp, bp = cfg.get('param_B'), cfg.get('param_B_prime'), cfg.get('param_b_prime')
            if all(isinstance(x, int) and x > 0 for x in (B, Bp, bp)) and max(prof) >= B * Bp * bp:
                return False
    except Exception:
        pass
    return True


def run_point(r, seed, name, label, cfg, deleted):
    L = sse.loader(name)
    if deleted == 'ALL':
        # a configuration that lacks EVERY parameter, as a plain dict and as the mapping types a caller may use: refused when the
        # scheme (its configuration) is built - never silently replaced by defaults
        import collections
        for mk in (dict, collections.OrderedDict, lambda: collections.defaultdict(int)):
            c = mk()
            case = {'scheme': name, 'point': label, 'cfg': {}, 'mapping_type': type(c).__name__, 'deleted': 'ALL'}
            core.note_case(case)
            r['evaluations'] += 1
            r['states'] += 1
            r['transitions'] += 1
            try:
                L.SSEScheme(c)
            except Exception:
                r.count('refused@config')
                r.count('deletions')
                r.outcome('refused@config/empty-configuration')
                continue
            r.v(PROPERTY, name, 'missing-parameter-not-refused-at-build', 'ALL/scheme', case,
                'SSEScheme(cfg) refuses a configuration that lacks every parameter', 'scheme object built')
        return
    cfg_in = copy.deepcopy(cfg)
    n_extra = cfg_in.pop('param_n_extra', 0) if name == 'CGKO06.SSE2' else 0
    accepted_any = False
    for prof in PROFILES:
        if not respects_capacity(name, cfg_in, prof):
            r.count('profile-exceeds-capacity (skipped)')
            continue
        case = {'scheme': name, 'point': label, 'cfg': cfg, 'profile': prof, 'deleted': deleted}
        core.note_case(case)
        g = det.rng(seed, 'c08', name, label, tuple(prof))
        db = make_db_for(name, cfg_in, prof, g)
        if db is None:
            r.count('no-valid-database-for-configuration')
            try:
                L.SSEConfig(copy.deepcopy(cfg_in))
                r.outcome('no-valid-database/config-builds')
            except Exception as e:
                r.outcome('no-valid-database/refused@config')
            r['evaluations'] += 1
            continue
        c = copy.deepcopy(cfg_in)
        if name == 'CGKO06.SSE2' and deleted != 'param_n':
            files = set(x for ids in db.values() for x in ids)
            c['param_n'] = len(files) + n_extra
            if n_extra < 0:
                # fewer files than the database has: capacity not respected -> outside the property's domain, unless refused
                pass
        elif name == 'CGKO06.SSE2':
            c.pop('param_n', None)
        absent = bytes([g.randrange(1, 256)]) + g.randbytes(3)
        det.seed_case(seed, PROPERTY, name, label, tuple(prof))
        r['evaluations'] += 1
        r['states'] += 1
        stage = 'config'
        try:
            L.SSEConfig(copy.deepcopy(c))
            stage = 'scheme'
            scheme = L.SSEScheme(c)
            stage = 'keygen'
            key = scheme.KeyGen()
            stage = 'setup'
            edb = scheme.EDBSetup(key, db)
            r['transitions'] += 3
            wrong = []
            for w in list(db) + [absent]:
                stage = 'token'
                tk = scheme.TokenGen(key, w)
                stage = 'search'
                got = scheme.Search(edb, tk).get_result_list()
                r['transitions'] += 2
                if not sse.result_ok(name, got, db.get(w, [])):
                    wrong.append((w, db.get(w, []), got))
        except Exception as e:
            r.count('refused@' + ('setup' if stage in ('keygen', 'setup', 'token', 'search') else 'config'))
            r.outcome('refused@%s/%s' % (stage, type(e).__name__))
            if deleted is not None and stage != 'config' and not (name == 'CGKO06.SSE2' and n_extra < 0):
                r.v(PROPERTY, name, 'missing-parameter-not-refused-at-build', '%s/%s' % (deleted, stage), case,
                    'SSEConfig(cfg) refuses a configuration lacking %r, or the scheme works without it' % deleted,
                    'configuration built, then %s raised %s' % (stage, core.exc_text(e)))
            continue
        if name == 'CGKO06.SSE2' and n_extra < 0:
            r.count('sse2-n-too-small-accepted (outside domain)')
            continue
        accepted_any = True
        if wrong:
            w, exp, got = wrong[0]
            r.v(PROPERTY, name, 'silent-wrong-answer', sse.classify_diff(name, got, exp) + ('/absent' if w not in db else ''),
                dict(case, keyword=w), exp, got, detail='%d of %d keywords wrong' % (len(wrong), len(db) + 1))
            r.outcome('silent-wrong-answer')
        else:
            r.count('accepted-and-correct')
            r.outcome('accepted-and-correct')
    if deleted is not None:
        r.count('deletions')
    if accepted_any:
        r['nontrivial'] += 1


def run_unit(p, tier, seed):
    r = core.Result()
    name = p['scheme']
    pts = points(name, tier)[p['lo']:p['hi']]
    for label, cfg, deleted in pts:
        run_point(r, seed, name, label, cfg, deleted)
    if pts:
        r.sample({'scheme': name, 'points': [x[0] for x in pts[:4]], 'profiles': PROFILES})
    det.restore()
    return r


def replay(case, seed):
    r = core.Result()
    run_point(r, seed, case['scheme'], case['point'], case['cfg'], case.get('deleted'))
    return r['violations']

# a subset of the units is executed again in other environments (child interpreters): see core.run_variants
ENV_VARIANTS = [{'name': 'python-O', 'flags': ['-O']}]

def variant_units(tier, seed, name):
    pred = lambda uid, p: p.get('lo') == 0
    return [u for u in units('quick', seed) if pred(u[0], u[1])]

