"""C04 - the stored index and the tokens never expose keywords or identifiers; encryption is randomised (engine E1)."""
import copy
from mc import core, det, domains, sse

PROPERTY = 'C04'
ENGINE = 'E1 bounded-exhaustive enumeration of (scheme, configuration point, profile, content variant); byte-level inspection of EDB and tokens'
LEVEL = 'model_checking'
DIRECTED_ADDITIONS = 'three workers forked from a process that has built an index, third setup by a brand-new scheme object, 16..256-posting setups, duplicate identifier inside a list, two deep / pickled copies of one scheme object'      # members added during the seeded-change campaign (DESIGN 7); counted under their own vacuity counters

CHUNK = 30


def describe(tier):
    d = _describe(tier)
    d['rule'] = d['rule'] + ' Directed additions: ' + DIRECTED_ADDITIONS + '.'
    return d


def _describe(tier):
    n = 7 if tier == 'quick' else 9
    return {
        'rule': 'case = (scheme, configuration point with identifier size >= 8, every partition of every N<=%d in both orders, content '
                'variant in {all identifiers distinct, ONE identifier repeated under every keyword}); keywords are 6 and identifiers 8/16 '
                'DRBG bytes. Oracle: (1) no stored keyword and (SSE-2 excepted) no stored identifier is a byte substring of EDB.serialize() '
                'or of any Token.serialize() (every stored keyword + absent ones); (2) the SKE-ciphertext-bearing entries of one EDB '
                '(selected per scheme by position; concatenated level blocks / buckets split by the ciphertext length) are pairwise '
                'distinct; (3) two EDBSetup runs of the same (K, DB) by one scheme object, and a third by a brand-new scheme object, have disjoint ciphertext entries. Deterministic labels and DP17\'s HT '
                'values are by design not in (2)/(3). non-trivial = case in which an identifier repeats or N >= 2.' % n,
        'bounds': 'N<=%d exhaustive over partitions x 2 content variants' % n,
        'assumptions': ['substring absence is decided for the generated values only (values are outside the alphabet); chance hit < 2^-40 per case',
                        'ciphertext entries are located by position in the pickled structure (per-scheme extractor in mc/sse.py)'],
        'must_be_nonzero': ['repeat-variant', 'dup-in-list-variant', 'scheme-copies-compared', 'ciphertext-entries', 'two-setups', 'forked-worker-setups-compared'],
    }


def grid(name, tier):
    pts = []
    for label, cfg in sse.grid(name, tier):
        if cfg.get('param_identifier_size', 8) < 8:
            if label.startswith('id'):
                continue
            cfg = dict(cfg, param_identifier_size=8)
            if name == 'CJJ14.Pi2Lev':
                try:
                    sse.loader(name).SSEConfig(cfg)
                except Exception:
                    continue
        pts.append((label, cfg))
    return pts


def case_list(name, label, cfg, tier):
    n = 7 if tier == 'quick' else 9
    cases = []
    for p in domains.profiles(n):
        cases.append((p, 6, 'disjoint'))
        if len(p) >= 2:
            cases.append((p, 6, 'repeat'))
        if sum(p) <= 5 and p[0] >= 2:
            cases.append((p, 6, 'dup-in-list'))
    if label in ('base', 'default', 'default-s256', 'B0', 'B1'):
        # many encryptions by one scheme object: a periodically reused IV / key stream shows up when the number of
        # encryptions per setup hits the period (two setups of the same (K, DB) are compared)
        for p in ([16], [32], [64], [65], [128], [256], [32, 32], [1] * 64, [2] * 64, [64, 64], [96, 32], [100, 28]):
            cases.append((p, 6, 'disjoint'))
        cases.append(([64, 64], 6, 'repeat'))
    return sse.dedup_valid(name, cfg, cases)


def units(tier, seed):
    us = sse.make_units(case_list, tier, CHUNK, grid_fn=grid)
    for name in sse.SCHEMES:
        us.append(('forked/%s' % name, {'kind': 'forked', 'scheme': name, 'label': 'base', 'cfg': sse.base_cfg(name)}))
    return us


def run_forked(r, seed, name, label, cfg):
    """the same (K, DB) encrypted by three workers forked from a process that has already built an index (pre-fork server,
    multiprocessing's fork start method): the ciphertext entries of the workers' indexes and of the parent's are pairwise disjoint"""
    profile = [3, 2, 1]
    case = {'scheme': name, 'label': label, 'cfg': cfg, 'profile': profile, 'kwlen': 6, 'relation': 'forked-workers'}
    core.note_case(case)
    db, cfg1, g = sse.build_db(seed, name, label, cfg, profile, 6, 'disjoint', awkward=False)
    det.restore()
    L = sse.loader(name)
    r['states'] += 1
    r['evaluations'] += 1
    r['nontrivial'] += 1
    try:
        scheme = L.SSEScheme(cfg1)
        key = scheme.KeyGen()
        first = scheme.EDBSetup(key, db).serialize()
    except Exception as e:
        r.count("setup-raises (C01's subject, skipped here)")
        return

    def work(i):
        return scheme.EDBSetup(key, db).serialize(), L.SSEScheme(copy.deepcopy(cfg1)).EDBSetup(key, db).serialize()
    res = det.forked(3, work)
    r['transitions'] += 7
    if any(t != 'ok' for t, _ in res):
        r.v(PROPERTY, name, 'raises', 'setup-in-forked-worker', case, 'setup works in a forked worker', repr([x for t, x in res if t != 'ok'][:1]))
        return
    sets = [set(sse.cipher_entries(name, cfg1, sse.unpickle_edb(first)))]
    for _, (e_a, e_b) in res:
        sets.append(set(sse.cipher_entries(name, cfg1, sse.unpickle_edb(e_a))))
        sets.append(set(sse.cipher_entries(name, cfg1, sse.unpickle_edb(e_b))))
    r.count('forked-worker-setups-compared', len(sets))
    for i in range(len(sets)):
        for j in range(i + 1, len(sets)):
            common = sets[i] & sets[j]
            if common:
                r.v(PROPERTY, name, 'equal-ciphertexts', 'across-forked-workers', case, 'ciphertext entries of setups in different worker processes disjoint',
                    'setups %d and %d: %d common entries of %d' % (i, j, len(common), len(sets[i])))
                r.outcome('equal-ciphertexts-across-workers')
                return
    r.outcome('ok/forked-workers')


def run_case(r, seed, name, label, cfg, profile, kwlen, relation):
    case = {'scheme': name, 'label': label, 'cfg': cfg, 'profile': profile, 'kwlen': kwlen, 'relation': relation}
    core.note_case(case)
    db, cfg1, g = sse.build_db(seed, name, label, cfg, profile, kwlen, 'disjoint', awkward=False)
    if relation == 'dup-in-list':
        # the same identifier twice under one keyword (a document listed twice): two postings, two independent ciphertexts
        db = {w: (ids + [ids[0]] if i == 0 else ids) for i, (w, ids) in enumerate(db.items())}
        cfg1 = sse.finalize_cfg(name, cfg, db)
        r.count('dup-in-list-variant')
    if relation == 'repeat':
        rep = g.randbytes(cfg.get('param_identifier_size', 8))
        db = {w: [rep] + ids[1:] for w, ids in db.items()}
        cfg1 = sse.finalize_cfg(name, cfg, db)
        r.count('repeat-variant')
    absent = [w for _, w in domains.absent_keywords(db, sse.kw_limit(name, cfg), g)][:2]
    det.seed_case(seed, PROPERTY, name, label, tuple(profile), relation)
    L = sse.loader(name)
    r['states'] += 1
    r['evaluations'] += 1
    if sum(profile) >= 2:
        r['nontrivial'] += 1
    try:
        scheme = L.SSEScheme(cfg1)
        key = scheme.KeyGen()
        edb1 = scheme.EDBSetup(key, db)
        edb2 = scheme.EDBSetup(key, db)
        edb3 = L.SSEScheme(copy.deepcopy(cfg1)).EDBSetup(key, db)      # the same (K, DB) once more, by a brand-new scheme object
        toks = [scheme.TokenGen(key, w).serialize() for w in list(db) + absent if len(w) <= sse.kw_limit(name, cfg)]
        r['transitions'] += 3 + len(toks)
    except Exception as e:
        r.count("setup-raises (C01's subject, skipped here)")
        return
    # two COPIES of one scheme object (deep copy, pickle) encrypting the same (K, DB): whatever state a scheme object carries, the
    # copies must not replay each other's randomness.  (That a scheme object can be copied at all is not demanded.)
    copies = []
    if sum(profile) <= 6:
        import pickle as _pickle
        try:
            blank = L.SSEScheme(copy.deepcopy(cfg1))
            c_a, c_b = copy.deepcopy(blank), copy.deepcopy(blank)
            copies.append(('deep-copies', c_a.EDBSetup(key, db), c_b.EDBSetup(key, db)))
            p_a, p_b = _pickle.loads(_pickle.dumps(blank)), _pickle.loads(_pickle.dumps(blank))
            copies.append(('pickled-copies', p_a.EDBSetup(key, db), p_b.EDBSetup(key, db)))
        except Exception:
            r.count('scheme-object-not-copyable (not demanded)')
    for how, ea, eb in copies:
        ca = set(sse.cipher_entries(name, cfg1, sse.unpickle_edb(ea.serialize())))
        cb = set(sse.cipher_entries(name, cfg1, sse.unpickle_edb(eb.serialize())))
        r.count('scheme-copies-compared')
        if ca & cb:
            r.v(PROPERTY, name, 'equal-ciphertexts', 'across-two-' + how + '-of-one-scheme-object', case, 'ciphertext entries of the two setups disjoint',
                '%d common entries of %d' % (len(ca & cb), len(ca)))
    raw1, raw2 = edb1.serialize(), edb2.serialize()
    blob = [('edb', raw1), ('edb-second-setup', raw2)] + [('token', t) for t in toks]
    for w in db:
        for where, b in blob:
            if w in b:
                r.v(PROPERTY, name, 'plaintext-keyword', where.split('-')[0], dict(case, keyword=w), 'keyword not a substring', 'keyword found in ' + where)
                r.outcome('keyword-in-clear')
    if name != 'CGKO06.SSE2':
        for w, ids in db.items():
            for x in ids:
                for where, b in blob:
                    if x in b:
                        r.v(PROPERTY, name, 'plaintext-identifier', where.split('-')[0], dict(case, identifier=x), 'identifier not a substring',
                            'identifier found in ' + where)
                        r.outcome('identifier-in-clear')
    e1 = sse.cipher_entries(name, cfg1, sse.unpickle_edb(raw1))
    e2 = sse.cipher_entries(name, cfg1, sse.unpickle_edb(raw2))
    r.count('ciphertext-entries', len(e1))
    r.count('two-setups')
    if name != 'CGKO06.SSE2' and not e1:
        r.v(PROPERTY, name, 'no-ciphertext-entries', 'extractor', case, 'at least one ciphertext entry', 'none found')
    if len(set(e1)) != len(e1):
        r.v(PROPERTY, name, 'equal-ciphertexts', 'within-one-edb', case, 'ciphertext entries pairwise distinct',
            '%d entries, %d distinct' % (len(e1), len(set(e1))))
        r.outcome('equal-ciphertexts-within')
    e3 = sse.cipher_entries(name, cfg1, sse.unpickle_edb(edb3.serialize()))
    common3 = (set(e1) | set(e2)) & set(e3)
    if common3:
        r.v(PROPERTY, name, 'equal-ciphertexts', 'across-two-scheme-objects', case, 'ciphertext entries of setups by two scheme objects disjoint',
            '%d common entries of %d' % (len(common3), len(e3)))
        r.outcome('equal-ciphertexts-across-objects')
    common = set(e1) & set(e2)
    if common:
        r.v(PROPERTY, name, 'equal-ciphertexts', 'across-two-setups', case, 'ciphertext entries of two setups disjoint',
            '%d common entries of %d' % (len(common), len(e1)))
        r.outcome('equal-ciphertexts-across')
    if not r['violations']:
        r.outcome('ok/' + relation)
    if r['states'] % 37 == 1:
        r.sample({'scheme': name, 'cfg_point': label, 'profile': profile, 'variant': relation, 'ciphertext_entries': len(e1)})


def run_unit(p, tier, seed):
    r = core.Result()
    name, label, cfg = p['scheme'], p['label'], p['cfg']
    if p.get('kind') == 'forked':
        run_forked(r, seed, name, label, cfg)
        det.restore()
        return r
    for profile, kwlen, relation in case_list(name, label, cfg, tier)[p['lo']:p['hi']]:
        run_case(r, seed, name, label, cfg, profile, kwlen, relation)
    det.restore()
    return r


def replay(case, seed):
    r = core.Result()
    if case['relation'] == 'forked-workers':
        run_forked(r, seed, case['scheme'], case['label'], case['cfg'])
        return r['violations']
    run_case(r, seed, case['scheme'], case['label'], case['cfg'], case['profile'], case['kwlen'], case['relation'])
    return r['violations']
