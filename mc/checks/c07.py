"""C07 - setup and search leave their inputs intact; searches repeat in any order (engine E2 + E1)."""
import copy, itertools, pickle
from mc import core, det, domains, sse

PROPERTY = 'C07'
ENGINE = 'E2 explicit-state search over search histories on the real index (BFS on canonical state + every sequence up to depth k, no dedup) + E1 input-intactness sweep'
LEVEL = 'model_checking'
DIRECTED_ADDITIONS = 'second index inside the histories, bytearray identifiers, tuple posting lists, duplicate identifiers, a build refused part-way, configuration dictionaries without scheme entry / with extra entry / reordered'      # members added during the seeded-change campaign (DESIGN 7); counted under their own vacuity counters

DEPTH = {'quick': 4, 'thorough': 5}
STATE_CAP = 60


def describe(tier):
    d = _describe(tier)
    d['rule'] = d['rule'] + ' Directed additions: ' + DIRECTED_ADDITIONS + '.'
    return d


def _describe(tier):
    return {
        'rule': 'histories: for each scheme x {base, default-like} configuration x 3 small databases, the alphabet is search(w) for 3 present '
                'and 2 absent keywords on the index plus 2 searches on a SECOND index of another database built under the same key by the same scheme object (it shares one keyword, with a different posting list), with ONE token object per keyword reused across the history. (a) BFS: state = history, '
                'canon = (EDB.serialize(), every token.serialize(), the scheme configuration\'s primitive fields); every event is applied to '
                'every reachable canonical state (fixpoint; if the property holds there is exactly one state with 5 self-loops); '
                '(b) every sequence of length <= %d over the 5 events is executed on a fresh copy without any deduplication. Oracle at every '
                'step: result == the single-search answer taken from a pristine copy, EDB bytes and token bytes unchanged. '
                '(c) inputs sweep: for every partition of N<=6 per scheme/configuration point, deep copies of DB, cfg dict and K.serialize() '
                'taken before EDBSetup are equal afterwards and after all searches; the module-level DEFAULT_CONFIG is unchanged after a '
                'scheme is built with the default argument. non-trivial = sequence that repeats a keyword or mixes present and absent.'
                % DEPTH[tier],
        'bounds': 'alphabet 5, BFS to fixpoint (cap %d states), all 5^k sequences k<=%d' % (STATE_CAP, DEPTH[tier]),
        'assumptions': ['hidden state can only live in the EDB object, the token objects or the scheme/config object (canon covers these three)'],
        'must_be_nonzero': ['bfs-fixpoint', 'sequences', 'inputs-checked', 'inputs-checked-bytearray-ids', 'refused-builds-checked', 'inputs-checked-tuple-lists', 'inputs-checked-dup-in-list', 'default-config-checked', 'config-variants-checked', 'second-index'],
    }


HIST_PROFILES = [[3, 1, 2], [1], [4, 4, 1, 2]]


def hist_points(name, tier):
    g = sse.grid(name, 'quick')
    pts = [g[0], g[1]]
    if name == 'CJJ14.Pi2Lev':
        pts += [x for x in g if x[0] in ('quad1', 'quad6', 'quad3')]      # pointer width differs from the identifier size
    if name in ('CJJ14.PiPtr', 'CJJ14.PiPack'):
        pts += [x for x in g if x[0] in ('B0', 'b0', 'id1')]
    if tier != 'quick':
        pts += g[2:6]
    return pts


def units(tier, seed):
    us = []
    for name in sse.SCHEMES:
        for label, cfg in hist_points(name, tier):
            profs = list(HIST_PROFILES)
            if name == 'CJJ14.Pi2Lev':          # one keyword of every size class (small / medium / large) in one index
                b_, B_, Bp, bp = cfg['param_b'], cfg['param_B'], cfg['param_B_prime'], cfg['param_b_prime']
                mixed = [b_, min(B_ * bp, b_ + 1 if b_ + 1 <= B_ * bp else B_ * bp), min(B_ * Bp * bp - 1, B_ * bp + 1)]
                profs += [mixed, mixed[::-1]]
            for pi, prof in enumerate(profs):
                if sse.valid_profile(name, cfg, prof):
                    us.append(('hist/%s/%s/%d' % (name, label, pi), {'kind': 'hist', 'scheme': name, 'label': label, 'cfg': cfg, 'profile': prof}))
        for label, cfg in sse.grid(name, tier):
            us.append(('inputs/%s/%s' % (name, label), {'kind': 'inputs', 'scheme': name, 'label': label, 'cfg': cfg}))
    us.append(('default-config', {'kind': 'defaults'}))
    return us


def cfg_fingerprint(scheme):
    c = scheme.config
    out = []
    for slot in getattr(c, '__slots__', []):
        try:
            v = getattr(c, slot)
        except AttributeError:
            out.append((slot, '<unset>')); continue
        if isinstance(v, (int, float, str, bytes, type(None))):
            out.append((slot, v))
        else:
            out.append((slot, type(v).__name__, tuple(sorted((k, x) for k, x in vars(v).items()
                                                             if isinstance(x, (int, float, str, bytes, type(None)))))))
    return repr(out)


class Hist:
    """one (scheme, configuration, database): pristine serialized objects + rebuild"""

    def __init__(self, seed, name, label, cfg, profile):
        self.name, self.label, self.profile = name, label, profile
        db, cfg1, g = sse.build_db(seed, name, label, cfg, profile, 6, 'disjoint')
        self.db, self.cfg = db, cfg1
        det.seed_case(seed, PROPERTY, name, label, tuple(profile))
        self.L = sse.loader(name)
        self.scheme = self.L.SSEScheme(cfg1)
        self.key = self.scheme.KeyGen()
        edb = self.scheme.EDBSetup(self.key, db)
        self.raw = edb.serialize()
        present = list(db)[:3]
        absent = [w for _, w in domains.absent_keywords(db, sse.kw_limit(name, cfg), g)][:5 - len(present)]
        self.alphabet = present + absent
        # a SECOND index alive at the same time: another database under the same key by the same scheme object; it shares the first
        # keyword (with a different posting list) and has one keyword of its own.  Events 5 and 6 search the second index.
        ids = cfg1.get('param_identifier_size', 8)
        w_shared, w_own = present[0], (absent[0] if absent else b'Zown')
        self.db2 = {w_shared: [x for x in domains.make_ids(4, ids, g, awkward=False) if x not in db[w_shared]][:2], w_own: domains.make_ids(1, ids, g, awkward=False)}
        self.raw2 = None
        if sse.finalize_cfg(name, cfg1, self.db2) == sse.finalize_cfg(name, cfg1, db) and len(w_own) <= sse.kw_limit(name, cfg1):
            try:
                self.raw2 = self.scheme.EDBSetup(self.key, self.db2).serialize()
            except Exception:
                self.raw2 = None
        self.events = [(0, i) for i in range(len(self.alphabet))]
        if self.raw2 is not None:
            self.events += [(1, self.alphabet.index(w_shared)), (1, self.alphabet.index(w_own))] if w_own in self.alphabet else [(1, self.alphabet.index(w_shared))]
        self.tok_raw = [self.scheme.TokenGen(self.key, w).serialize() for w in self.alphabet]
        self.cfgfp = cfg_fingerprint(self.scheme)
        # single-search answers from pristine copies
        self.single = []
        for (which, i) in self.events:
            edbs, toks = self.fresh()
            alone = self.L.SSEScheme(copy.deepcopy(cfg1))       # a scheme object that has never searched anything else
            self.single.append(self.norm(alone.Search(edbs[which], toks[i]).get_result_list()))

    def norm(self, got):
        return frozenset(got) if self.name in sse.SET_RESULT else tuple(got)

    def fresh(self):
        edbs = [self.L.SSEEncryptedDatabase.deserialize(self.raw, self.scheme.config)]
        if self.raw2 is not None:
            edbs.append(self.L.SSEEncryptedDatabase.deserialize(self.raw2, self.scheme.config))
        toks = [self.L.SSEToken.deserialize(t, self.scheme.config) for t in self.tok_raw]
        return edbs, toks

    def canon(self, edbs, toks):
        return (tuple(e.serialize() for e in edbs), tuple(t.serialize() for t in toks), cfg_fingerprint(self.scheme))


def run_hist(r, seed, p, tier):
    name = p['scheme']
    case = {'scheme': name, 'label': p['label'], 'cfg': p['cfg'], 'profile': p['profile']}
    core.note_case(case)
    try:
        h = Hist(seed, name, p['label'], p['cfg'], p['profile'])
    except Exception as e:
        r.count("setup-raises (C01's subject, skipped here)")
        return
    init = ((h.raw,) + ((h.raw2,) if h.raw2 is not None else ()), tuple(h.tok_raw), h.cfgfp)
    nev = len(h.events)
    if h.raw2 is not None:
        r.count('second-index')

    def step(edbs, toks, ev, hist):
        r['transitions'] += 1
        which, ti = h.events[ev]
        c = dict(case, history=hist + [ev], alphabet=h.alphabet, events=h.events)
        try:
            got = h.norm(h.scheme.Search(edbs[which], toks[ti]).get_result_list())
        except Exception as e:
            r.v(PROPERTY, name, 'search-raises-in-history', '%s:%s' % (core.exc_site(e), type(e).__name__), c, h.single[ev], core.exc_text(e))
            r.outcome('raises')
            return False
        if got != h.single[ev]:
            dbx = h.db if which == 0 else h.db2
            r.v(PROPERTY, name, 'answer-depends-on-history', ('present' if h.alphabet[ti] in dbx else 'absent') + ('/second-index' if which else ''), c, h.single[ev], got)
            r.outcome('answer-differs')
            return False
        return True

    # (a) BFS over canonical states
    seen = {init}
    frontier = [[]]
    changed_reported = False
    while frontier:
        hist = frontier.pop(0)
        for ev in range(nev):
            edb, toks = h.fresh()
            ok = True
            for e0 in hist:
                h.scheme.Search(edb[h.events[e0][0]], toks[h.events[e0][1]])
            step(edb, toks, ev, hist)
            k = h.canon(edb, toks)
            if k != init and not changed_reported:
                what = 'edb' if k[0] != init[0] else 'token' if k[1] != init[1] else 'scheme-config'
                r.v(PROPERTY, name, 'state-changed-by-search', what, dict(case, history=hist + [ev], alphabet=h.alphabet),
                    'EDB, tokens and scheme configuration byte-identical after a search', what + ' differs')
                r.outcome('state-changed/' + what)
                changed_reported = True
            if k not in seen:
                if len(seen) >= STATE_CAP:
                    r['caps'].append('C07 BFS state cap %d hit for %s' % (STATE_CAP, name))
                    frontier = []
                    break
                seen.add(k)
                frontier.append(hist + [ev])
    r['states'] += len(seen)
    r.count('bfs-fixpoint')
    r.outcome('bfs-states=%d' % len(seen))
    # (b) all sequences up to depth k, no dedup
    depth = DEPTH[tier]
    for k in range(1, depth + 1):
        for seq in itertools.product(range(nev), repeat=k):
            edb, toks = h.fresh()
            r['evaluations'] += 1
            r.count('sequences')
            if len(set(seq)) < len(seq) or len({h.alphabet[h.events[e][1]] in h.db for e in seq}) == 2:
                r['nontrivial'] += 1
            for i, ev in enumerate(seq):
                if not step(edb, toks, ev, list(seq[:i])):
                    break
            kk = h.canon(edb, toks)
            if kk != init:
                what = 'edb' if kk[0] != init[0] else 'token' if kk[1] != init[1] else 'scheme-config'
                r.v(PROPERTY, name, 'state-changed-by-search', what, dict(case, history=list(seq), alphabet=h.alphabet),
                    'EDB, tokens and scheme configuration byte-identical after the sequence', what + ' differs')
    r['traces'] += 1
    r.sample({'scheme': name, 'cfg_point': p['label'], 'profile': p['profile'], 'alphabet': h.alphabet, 'example_sequence': [0, 3, 0, 4][:depth]})


def run_inputs(r, seed, p, tier):
    name, label, cfg = p['scheme'], p['label'], p['cfg']
    L = sse.loader(name)
    n = 5 if tier == 'quick' else 7
    profs = [q for q in domains.profiles(n) if sse.valid_profile(name, cfg, q)]
    lens = [v for v in domains.around(sse.special_lengths(name, cfg, tier)) if v <= 40]
    profs += [q for q in domains.boundary_profiles(lens, extra=False) if sse.valid_profile(name, cfg, q) and q not in profs]
    # identifiers are byte strings; the library accepts any bytes-like object, and a mutable one (bytearray) is the one a callee
    # could change in place
    variants = [(q, 'bytes') for q in profs] + [(q, 'bytearray') for q in profs if sum(q) <= (4 if tier == 'quick' else 6)]
    # a build that is REFUSED part-way (the last identifier of the last keyword is a str, not bytes) is still "building an index":
    # the caller's database, as it was handed in, is what the caller gets back
    variants += [(q, 'refused') for q in profs if 2 <= sum(q) <= (6 if tier == 'quick' else 9)]
    # the same identifier twice under one keyword (a document listed twice): still listed twice in the caller's database
    variants += [(q, 'dup-in-list') for q in profs if 2 <= sum(q) <= (5 if tier == 'quick' else 7)]
    # posting lists handed over as tuples (any sequence is accepted): they are still the caller's tuples afterwards
    variants += [(q, 'tuple-lists') for q in profs if sum(q) <= (5 if tier == 'quick' else 7)]
    for prof, idtype in variants:
        case = {'scheme': name, 'label': label, 'cfg': cfg, 'profile': prof, 'inputs': True}
        if idtype != 'bytes':
            case['id_type'] = idtype
        core.note_case(case)
        db, cfg1, g = sse.build_db(seed, name, label, cfg, prof, 6, 'shared' if sum(prof) % 2 else 'disjoint')
        if idtype == 'bytearray':
            db = {w: [bytearray(i) for i in v] for w, v in db.items()}
        if idtype == 'tuple-lists':
            db = {w: tuple(v) for w, v in db.items()}
        if idtype == 'dup-in-list':
            db = {w: (list(v) + [v[0]] + list(v[1:2]) if i == 0 else list(v)) for i, (w, v) in enumerate(db.items())}
            if sse.finalize_cfg(name, cfg, db) != cfg1 or not sse.valid_profile(name, cfg, [len(v) for v in db.values()]):
                continue
        det.seed_case(seed, PROPERTY, 'inputs', name, label, tuple(prof))
        if idtype == 'refused':
            lastw = list(db)[-1]
            db[lastw] = list(db[lastw][:-1]) + [db[lastw][-1].hex()]
        db0, cfg0 = copy.deepcopy(db), copy.deepcopy(cfg1)
        order0 = [(w, list(v)) for w, v in db.items()]
        types0 = [type(v) for v in db.values()]
        if idtype == 'refused':
            r['evaluations'] += 1
            try:
                sch_ = L.SSEScheme(cfg1)
                sch_.EDBSetup(sch_.KeyGen(), db)
                r.count('str-identifier-accepted')
            except Exception:
                r.count('refused-builds-checked')
                if db != db0 or [(w, list(v)) for w, v in db.items()] != order0:
                    r.v(PROPERTY, name, 'input-mutated', 'database/after-refused-setup', case, 'database unchanged by the refused build', 'database differs from its deep copy')
                    r.outcome('db-mutated')
                if cfg1 != cfg0:
                    r.v(PROPERTY, name, 'input-mutated', 'config-dict/after-refused-setup', case, cfg0, cfg1)
            continue
        r['evaluations'] += 1
        r['states'] += 1
        try:
            scheme = L.SSEScheme(cfg1)
            key = scheme.KeyGen()
            k0 = key.serialize()
            edb = scheme.EDBSetup(key, db)
            r['transitions'] += 2
        except Exception:
            r.count("setup-raises (C01's subject, skipped here)" if idtype == 'bytes' else idtype + '-refused')
            continue
        r.count('inputs-checked')
        if idtype != 'bytes':
            r.count('inputs-checked-bytearray-ids' if idtype == 'bytearray' else 'inputs-checked-' + idtype)
        r['nontrivial'] += 1

        def chk(stage):
            if db != db0 or [(w, list(v)) for w, v in db.items()] != order0 or [type(v) for v in db.values()] != types0:
                r.v(PROPERTY, name, 'input-mutated', 'database/' + stage, case, 'database unchanged', 'database differs from its deep copy')
                r.outcome('db-mutated')
            if cfg1 != cfg0 or list(cfg1) != list(cfg0):
                r.v(PROPERTY, name, 'input-mutated', 'config-dict/' + stage, case, cfg0, cfg1)
                r.outcome('cfg-mutated')
            if key.serialize() != k0:
                r.v(PROPERTY, name, 'input-mutated', 'key/' + stage, case, 'key bytes unchanged', 'key bytes differ')
                r.outcome('key-mutated')
        chk('after-setup')
        raw = edb.serialize()
        try:
            for w in list(db) + [b'Zabsent']:
                if len(w) <= sse.kw_limit(name, cfg):
                    scheme.Search(edb, scheme.TokenGen(key, w))
                    r['transitions'] += 2
        except Exception:
            r.count('search-raises (C01/C02)')
        chk('after-search')
        if edb.serialize() != raw:
            r.v(PROPERTY, name, 'state-changed-by-search', 'edb', case, 'EDB bytes unchanged by searches', 'EDB bytes differ')
        r.outcome('inputs-intact')


def run_defaults(r, seed):
    import importlib
    for name in sse.SCHEMES:
        case = {'scheme': name, 'default_config': True}
        core.note_case(case)
        L = sse.loader(name)
        cfgmod = importlib.import_module('schemes.%s.config' % name)
        before = copy.deepcopy(cfgmod.DEFAULT_CONFIG)
        before_cls = copy.deepcopy(L.SSEConfig.get_default_config())
        r['evaluations'] += 1
        r['states'] += 1
        det.seed_case(seed, PROPERTY, 'defaults', name)
        g = det.rng(seed, 'defaults', name)
        try:
            scheme = L.SSEScheme()      # default argument = the shared module-level dict
            key = scheme.KeyGen()
            db = domains.make_db([2, 1], scheme.config.param_identifier_size if hasattr(scheme.config, 'param_identifier_size') else 8, 6, g)
            edb = scheme.EDBSetup(key, db)
            for w in db:
                scheme.Search(edb, scheme.TokenGen(key, w))
            r['transitions'] += 5
        except Exception as e:
            r.count('default-config-not-usable-as-is:' + name)
        # unusual but accepted configuration dictionaries: without the (never read) "scheme" entry; with an extra unknown entry;
        # the caller's dictionary is only read - same keys, same order, same values afterwards
        for vname, mk in (('no-scheme-key', lambda c: {k: v for k, v in c.items() if k != 'scheme'}), ('extra-key', lambda c: dict(c, zz_comment='kept by the caller')),
                          ('reordered', lambda c: dict(reversed(list(c.items()))))):
            cfgv = mk(sse.finalize_cfg(name, sse.base_cfg(name), {b'w': [b'x']}))
            snap = copy.deepcopy(cfgv)
            r['evaluations'] += 1
            try:
                sch = L.SSEScheme(cfgv)
                k_ = sch.KeyGen()
                ids_ = cfgv.get('param_identifier_size', 8)
                dbv = domains.make_db([2, 1], ids_, 6, g)
                ev = sch.EDBSetup(k_, dbv)
                for w in dbv:
                    sch.Search(ev, sch.TokenGen(k_, w))
                r.count('config-variants-checked')
            except Exception:
                r.count('config-variant-refused:' + vname)
            if cfgv != snap or list(cfgv) != list(snap):
                r.v(PROPERTY, name, 'input-mutated', 'config-dict/' + vname, dict(case, variant=vname), snap, cfgv)
        r.count('default-config-checked')
        if cfgmod.DEFAULT_CONFIG != before or L.SSEConfig.get_default_config() != before_cls:
            r.v(PROPERTY, name, 'input-mutated', 'DEFAULT_CONFIG', case, before, cfgmod.DEFAULT_CONFIG)
        else:
            r.outcome('default-config-intact')


def run_unit(p, tier, seed):
    r = core.Result()
    if p['kind'] == 'hist':
        run_hist(r, seed, p, tier)
    elif p['kind'] == 'inputs':
        run_inputs(r, seed, p, tier)
    else:
        run_defaults(r, seed)
    det.restore()
    return r


def replay(case, seed):
    r = core.Result()
    if case.get('default_config'):
        run_defaults(r, seed)
    elif case.get('inputs'):
        run_inputs(r, seed, {'scheme': case['scheme'], 'label': case['label'], 'cfg': case['cfg']}, 'quick')
    else:
        run_hist(r, seed, {'scheme': case['scheme'], 'label': case['label'], 'cfg': case['cfg'], 'profile': case['profile']}, 'quick')
    return r['violations']

# a subset of the units is executed again in other environments (child interpreters): see core.run_variants
ENV_VARIANTS = [{'name': 'rlimit-as-32G', 'rlimit': {'AS': 32 * 2 ** 30}}, {'name': 'python-O', 'flags': ['-O']}]

def variant_units(tier, seed, name):
    pred = lambda uid, p: p.get('kind') == 'inputs' and p.get('label') == 'base'
    return [u for u in units('quick', seed) if pred(u[0], u[1])]

