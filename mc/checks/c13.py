"""C13 - a crash between persistence steps never leaves a service unusable (engine E4 = E3 + crash file system)."""
import os, pickle, copy, json
from mc import core, det, vnet, fe, sse, crashfs

PROPERTY = 'C13'
ENGINE = 'E4 exhaustive crash-point enumeration: the real client and server on the virtual network, one component killed before/after every file-system mutation of every persisting handler, restarted on the same directory'
LEVEL = 'model_checking'
DIRECTED_ADDITIONS = 'the crash points of the small workloads again as an ordinary user (root ignores permission bits), the CLI workload addressed by name, a second crash (either side) in the retry or any later command, SIGKILL replays'      # members added during the seeded-change campaign (DESIGN 7); counted under their own vacuity counters

STEPS = ['create', 'genkey', 'encrypt', 'upload-config', 'upload-index', 'search']
IN_SCOPE = {
    'server': ('handle_upload_config', 'handle_upload_encrypted_database'),
    'client': ('handle_create_config', 'handle_create_key', 'handle_encrypt_database', 'handle_upload_config_echo',
               'handle_upload_encrypted_database_echo', 'record_sname_id_pair', 'create_service'),
}
B_CREATED, B_CFG_UP, B_KEY, B_ENC, B_IDX_UP = 1, 2, 4, 8, 16


def describe(tier):
    d = _describe(tier)
    d['rule'] = d['rule'] + ' Directed additions: ' + DIRECTED_ADDITIONS + '.'
    return d


def _describe(tier):
    return {
        'rule': 'history = the documented workflow create | genkey | encrypt | upload-config | upload-index | searches, every command run CLI-style by '
                'a fresh client component against a live server component on the virtual network. A baseline run records every file-system '
                'mutation (mkdir, open-for-write, write of <= 8 KiB, unlink, rename) per component together with the handler on the stack. For EVERY '
                'mutation k performed inside a persisting handler (server: handle_upload_config, handle_upload_encrypted_database; client: '
                'handle_create_config, handle_create_key, handle_encrypt_database and the two upload-acknowledgement handlers) and both '
                '"immediately before k" and "immediately after k": kill that component there (its buffered data is lost, its sockets go away, '
                'nothing of it runs again), let the survivor run to quiescence, restart the dead component on the same directory, then: a raw '
                'probe connection must get an init echo reporting the state before or after the interrupted step; Service(sid) must load; the '
                'interrupted step is retried iff its post-condition does not hold yet; the rest of the workflow runs. Oracle: every step after '
                'the restart succeeds and the final searches equal DB[w]. Workloads: %s; plus the small PiBas workflow through frontend/client/commands.py with the service addressed by NAME (the name->id mapping file is then part of the state). non-trivial = crash point inside an in-scope handler.'
                % ('PiBas with a 3-keyword database; PiBas with an index spanning several 8 KiB write chunks' + (
                    '' if tier == 'quick' else '; Pi2Lev and DP17 with the small database')),
        'bounds': 'all in-scope mutations x {before, after}',
        'assumptions': ['crash model of the property: before/after each mutation; no reordering of writes across files, no torn write inside an 8 KiB chunk',
                        'each CLI command is a separate process: a fresh client component per command',
                        'a crashed create-service is retried as a new service (its sid was never reported to the user)'],
        'must_be_nonzero': ['crash-points', 'double-crash-points', 'second-crashes', 'server-crashes', 'client-crashes', 'multi-chunk-writes', 'retries', 'final-searches', 'sigkill-replays'],
    }


def workloads(tier):
    w = [('PiBas-small', 'CJJ14.PiBas', 'small'), ('PiBas-multichunk', 'CJJ14.PiBas', 'big'), ('PiBas-small-cli', 'CJJ14.PiBas', 'small-cli')]
    w += [('Pi2Lev-small', 'CJJ14.Pi2Lev', 'small'), ('DP17-small', 'DP17.Pi', 'small')]
    if tier != 'quick':
        w += [('CT14-small', 'CT14.Pi', 'small'), ('SSE1-small', 'CGKO06.SSE1', 'small'), ('ANSS16-multichunk', 'ANSS16.Scheme3', 'big')]
    return w


def make_db(seed, size):
    size = size.replace('-cli', '')
    g = det.rng(seed, 'c13-db', size)
    if size == 'small':
        return {b'alpha': [g.randbytes(8), g.randbytes(8)], b'beta': [g.randbytes(8)], b'gamma': [g.randbytes(8) for _ in range(3)]}
    return {b'alpha': [g.randbytes(8) for _ in range(150)], b'beta': [g.randbytes(8) for _ in range(120)], b'gamma': [g.randbytes(8)]}


class Run:
    """one execution of the workflow, possibly with one armed crash point"""

    def __init__(self, seed, scheme, dbsize, arm=None):
        self.seed, self.scheme = seed, scheme
        self.db = make_db(seed, dbsize)
        cfg = sse.base_cfg(scheme)
        cfg['param_identifier_size'] = 8
        self.cfg = sse.finalize_cfg(scheme, cfg, self.db)
        det.seed_case(seed, PROPERTY, scheme, dbsize)
        self.w = fe.World(eager=True)
        self.m = self.w.m
        self.fs = crashfs.CrashFS(self.w.loop, os.path.join(os.environ['HOME'], '.sse'))
        self.fs.arm = arm
        self.fs.install()
        self.ncli = 0
        self.sid = ''
        self.problems = []
        self.log = []
        # CLI level: every command goes through frontend/client/commands.py and addresses the service by its NAME, so the
        # name -> id mapping file written by create-service is part of the persistent state under test
        self.use_commands = dbsize.endswith('-cli')
        if self.use_commands:
            import json as _json
            self.files = det.workdir('c13cli')
            self.cfg_path = os.path.join(self.files, 'cfg.json')
            self.db_path = os.path.join(self.files, 'db.json')
            _json.dump(self.cfg, open(self.cfg_path, 'w'))
            _json.dump({w.decode(): [x.hex() for x in ids] for w, ids in self.db.items()}, open(self.db_path, 'w'))
            self.sname = 'svc'

    def close(self):
        self.fs.uninstall()
        if getattr(self, 'use_commands', False):
            import shutil
            shutil.rmtree(self.files, ignore_errors=True)
            try:
                import frontend.client.services.service_name_handler as snh
                os.unlink(str(snh.SERVICE_MAPPING_PATH))
            except OSError:
                pass
        self.w.close()

    def cli_commands(self, step, keyword=None):
        """one command through frontend/client/commands.py in a fresh client component (= a fresh process: module-level caches
        of the previous command are dropped)"""
        import io, contextlib, re, ast
        import frontend.client.commands as cmd
        import frontend.client.services.service_name_handler as snh
        self.ncli += 1
        comp = 'client#%d' % self.ncli
        setattr(cmd, '__client_service', None)
        for fn in (snh.read_service_mapping, snh.write_service_mapping):
            for cell in (fn.__closure__ or ()):
                try:
                    if isinstance(cell.cell_contents, dict):
                        cell.cell_contents = None
                except ValueError:
                    pass
        self.fs.step = step
        out = {'step': step, 'comp': comp, 'result': None, 'exc': None}
        buf = io.StringIO()

        def run(f, *a, **k):
            async def wrapper():
                res = f(*a, **k)
                if hasattr(res, '__await__'):
                    res = await res
                return res
            t = self.w.loop.spawn(wrapper(), comp)
            self.w.loop.run_until(t.done)
            return t.result()
        try:
            with contextlib.redirect_stdout(buf):
                if step == 'create':
                    run(cmd.create_service, self.cfg_path, self.sname)
                elif step == 'genkey':
                    run(cmd.generate_key, sname=self.sname)
                elif step == 'encrypt':
                    run(cmd.encrypt_database, self.db_path, sname=self.sname)
                elif step == 'upload-config':
                    run(cmd.upload_config, sname=self.sname)
                elif step == 'upload-index':
                    run(cmd.upload_encrypted_database, sname=self.sname)
                elif step == 'search':
                    run(cmd.search, keyword.decode(), 'hex', sname=self.sname)
        except crashfs.Crash:
            out['exc'] = 'CRASHED'
        except vnet.Deadlock:
            out['exc'] = 'Deadlock'
        except Exception as e:
            out['exc'] = core.exc_text(e)
        text = buf.getvalue()
        if out['exc'] is None and (re.search(r'error', text, re.I) or 'Unsupported' in text):
            out['exc'] = 'printed: ' + text.strip().splitlines()[-1][:160]
        if step == 'create':
            # what a user can know after the command: the name -> id mapping on disk
            try:
                import json as _json
                mp = _json.load(open(str(snh.SERVICE_MAPPING_PATH)))
                self.sid = mp.get(self.sname, '')
            except Exception:
                self.sid = ''
            root = str(self.m['cfm']._PROGRAM_PATH)
            for d in os.listdir(root):
                if os.path.isdir(os.path.join(root, d)) and d not in self.w.client_sids:
                    self.w.client_sids.append(d)
                    self.w.sids.append(d)
        if step == 'search' and out['exc'] is None:
            m_ = re.search(r'>>> The result is (\[.*?\])\.', text)
            try:
                out['result'] = [bytes.fromhex(x) for x in ast.literal_eval(m_.group(1))] if m_ else None
            except Exception:
                out['result'] = None
            if m_ is None:
                out['exc'] = 'no result printed: ' + text.strip()[-120:]
        fe.settle(self.w.loop, timers=True)
        self.log.append((step, out['exc'] or 'ok'))
        return out

    # ---- one CLI command in a fresh client component
    def cli(self, step, keyword=None):
        if self.use_commands:
            return self.cli_commands(step, keyword)
        self.ncli += 1
        comp = 'client#%d' % self.ncli
        cl = fe.ClientDriver(self.w, comp)
        cl.sid = self.sid
        self.fs.step = step
        out = {'step': step, 'comp': comp, 'result': None, 'exc': None}
        try:
            if step == 'create':
                sid = cl.create(copy.deepcopy(self.cfg))
                out['result'] = sid
                self.sid = sid
            else:
                cl.load()
                try:
                    if step == 'genkey':
                        cl.genkey()
                    elif step == 'encrypt':
                        cl.encrypt(copy.deepcopy(self.db))
                    elif step == 'upload-config':
                        out['result'] = cl.upload_config()
                    elif step == 'upload-index':
                        out['result'] = cl.upload_index()
                    elif step == 'search':
                        got = cl.search(keyword)
                        out['result'] = cl.svc.sse_module_loader.SSEResult.deserialize(got[0], cl.svc.config_object).get_result_list() if got else None
                finally:
                    if step in ('upload-config', 'upload-index', 'search') and not self.w.loop.dead.get(comp):
                        cl.drop()
        except crashfs.Crash:
            out['exc'] = 'CRASHED'
        except vnet.Deadlock as e:
            out['exc'] = 'Deadlock'
        except Exception as e:
            out['exc'] = core.exc_text(e)
            out['site'] = core.exc_site(e)
        # a dead client process leaves its sid behind (the harness needs it to clean up)
        if step == 'create' and not self.sid:
            root = str(self.m['cfm']._PROGRAM_PATH)
            for d in os.listdir(root):
                if os.path.isdir(os.path.join(root, d)) and d not in self.w.client_sids:
                    self.w.client_sids.append(d)
        fe.settle(self.w.loop, timers=True)
        self.log.append((step, out['exc'] or 'ok'))
        return out

    def client_flags(self):
        f = self.w.client_files(self.sid) if self.sid else {}
        try:
            return pickle.loads(f['service_meta']).get('state') if 'service_meta' in f else None
        except Exception:
            return 'unreadable'

    def server_state_on_disk(self):
        f = self.w.server_files(self.sid) if self.sid else {}
        if not f:
            return 0
        try:
            return pickle.loads(f['service_meta']).get('state') if 'service_meta' in f else 'no-meta'
        except Exception:
            return 'unreadable'

    def probe(self):
        """raw connection: the init handshake must succeed; returns reported state or None"""
        c = fe.RawConn(self.w, self.sid).open()
        fe.settle(self.w.loop, timers=True)
        msgs = [x for x in c.new_messages() if x.get('type') != 'control']
        st = None
        if msgs and msgs[0].get('type') == 'init':
            st = pickle.loads(msgs[0]['content']).get('state')
        c.close()
        fe.settle(self.w.loop, timers=True)
        return st

    def post_ok(self, step):
        fl = self.client_flags()
        if step == 'create':
            return bool(self.sid) and isinstance(fl, int) and bool(fl & B_CREATED)
        if not isinstance(fl, int):
            return False
        if step == 'genkey':
            return bool(fl & B_KEY)
        if step == 'encrypt':
            return bool(fl & B_ENC)
        if step == 'upload-config':
            return self.server_state_on_disk() in (1, 2)
        if step == 'upload-index':
            return self.server_state_on_disk() == 2
        return False


def baseline(seed, scheme, dbsize):
    """mutation sequences of an uncrashed workflow"""
    run = Run(seed, scheme, dbsize)
    try:
        run.w.start_server()
        for step in STEPS[:-1]:
            o = run.cli(step)
            if o['exc']:
                return None, 'baseline step %s failed: %s' % (step, o['exc'])
        for w in list(run.db) + [b'absent']:
            o = run.cli('search', w)
            if o['exc'] or not sse.result_ok(scheme, o['result'], run.db.get(w, [])):
                return None, 'baseline search failed: %r' % (o,)
        return {c: list(v) for c, v in run.fs.ops.items()}, None
    finally:
        run.close()


def crash_points(ops):
    pts = []
    for comp, lst in sorted(ops.items()):
        side = 'server' if comp.startswith('server') else 'client'
        for k, (kind, rel, handler, step) in enumerate(lst):
            if handler in IN_SCOPE[side]:
                for when in ('before', 'after'):
                    pts.append({'component': comp, 'k': k, 'when': when, 'kind': kind, 'file': ('service-dir' if kind == 'mkdir' else os.path.basename(rel)), 'handler': handler, 'step': step})
    return pts


def run_crash(r, seed, wl, pt, second=None, info=None):
    """one execution with a crash at pt.  second = (c, side2, j, when): a SECOND crash - the c-th command issued after the
    recovery from the first one (the retry of the interrupted step, or a later step) loses its client (side2 = 'client') or the
    server (side2 = 'server') at the j-th in-scope mutation that component performs during that command.  info (dict) receives,
    from the single-crash execution, the mutations of every later command."""
    name, scheme, dbsize = wl
    case = {'workload': name, 'scheme': scheme, 'db': dbsize, 'crash': pt}
    if second:
        case['second_crash'] = {'command': second[0], 'side': second[1], 'mutation': second[2], 'when': second[3]}
    core.note_case(case)
    site = '%s/%s-%s-%s' % (pt['handler'], pt['when'], pt['kind'], pt['file'])
    side = 'server' if pt['component'].startswith('server') else 'client'
    run = Run(seed, scheme, dbsize, arm=(pt['component'], pt['k'], pt['when']))
    r['evaluations'] += 1
    r['states'] += 1
    r['nontrivial'] += 1
    r.count('crash-points' if not second else 'double-crash-points')
    r.count(side + '-crashes')
    if pt['kind'] == 'write' and dbsize == 'big' and pt['file'] == 'edb':
        r.count('multi-chunk-writes')
    st8 = {'site': site, 'phase': 'before-first', 'cmd': 0, 'second_done': False}

    def bad(kind, expected, observed):
        r.v(PROPERTY, side, kind, st8['site'], dict(case, log=run.log), expected, observed)
        r.outcome(kind)

    def recover(step, dead_side):
        """restart the dead component on the same directory and look at what a user can see; False = fatal"""
        run.fs.arm = None
        run.fs.crashed = None
        if dead_side == 'server':
            run.w.start_server()
        if step == 'create' and dead_side == 'client':
            run.sid = ''      # the sid was never reported: the user creates the service again
            return True
        if not run.sid:
            return True
        st = run.probe()
        disk = run.server_state_on_disk()
        allowed = {'upload-config': (0, 1), 'upload-index': (1, 2)}.get(step, (0, 1, 2))
        if st is None:
            bad('handshake-fails-after-restart', 'init echo with a state in %s' % (allowed,), 'connection closed without init echo (server files: %s)' % sorted(run.w.server_files(run.sid)))
            return False
        if st not in allowed or st != (disk if isinstance(disk, int) else st):
            bad('state-inconsistent-after-restart', 'state in %s, consistent with disk (%s)' % (allowed, disk), st)
        try:
            cl = fe.ClientDriver(run.w, 'client#load')
            cl.sid = run.sid
            cl.load()
        except Exception as e:
            bad('client-cannot-load-after-restart', 'Service(sid) loads', core.exc_text(e))
            return False
        return True

    def issue(step):
        """one command; after the first recovery its mutations are recorded (single-crash run) or it is armed (second crash)"""
        if st8['phase'] != 'after-first':
            return run.cli(step)
        comps = {'client': 'client#%d' % (run.ncli + 1), 'server': run.w.server_component()}
        base = {sd: len(run.fs.ops[cp]) for sd, cp in comps.items()}
        c = st8['cmd']
        st8['cmd'] += 1
        if second and not st8['second_done'] and second[0] == c:
            later = info['later'][c]
            scope = [k for k, op in enumerate(later[second[1]]) if op[2] in IN_SCOPE[second[1]]]
            run.fs.arm = (comps[second[1]], base[second[1]] + scope[second[2]], second[3])
            st8['armed'] = True
        o = run.cli(step)
        if info is not None and not second:
            info.setdefault('later', []).append({'step': step, 'client': list(run.fs.ops[comps['client']][base['client']:]),
                                                 'server': list(run.fs.ops[comps['server']][base['server']:])})
        return o

    try:
        run.w.start_server()
        crashed_step = None
        fatal = False
        for step in STEPS[:-1]:
            o = issue(step)
            r['transitions'] += 1
            crashed_now = run.fs.crashed
            if st8.pop('armed', False) and not crashed_now:
                bad('second-crash-point-not-reached', 'the armed mutation of command %d is executed' % second[0], 'command finished without reaching it')
                fatal = True
                break
            if crashed_now:
                dead = 'server' if crashed_now[0].startswith('server') else 'client'
                if crashed_step is None:
                    crashed_step = step
                    st8['phase'] = 'after-first'
                else:
                    st8['second_done'] = True
                    st8['site'] = site + '+second-crash/%s/%s' % (step, dead)
                    r.count('second-crashes')
                if not recover(step, dead):
                    fatal = True
                    break
                tries = 0
                while not run.post_ok(step):
                    tries += 1
                    r.count('retries')
                    o2 = issue(step)
                    r['transitions'] += 1
                    crashed2 = run.fs.crashed
                    if st8.pop('armed', False) and not crashed2:
                        bad('second-crash-point-not-reached', 'the armed mutation of command %d is executed' % second[0], 'command finished without reaching it')
                        fatal = True
                        break
                    if crashed2:
                        dead2 = 'server' if crashed2[0].startswith('server') else 'client'
                        st8['second_done'] = True
                        st8['site'] = site + '+second-crash/%s/%s' % (step, dead2)
                        r.count('second-crashes')
                        if not recover(step, dead2):
                            fatal = True
                            break
                        continue
                    if o2['exc'] and not run.post_ok(step):
                        bad('interrupted-step-cannot-be-completed', '%s succeeds when retried%s' % (step, ' after the second crash' if st8['second_done'] else ''), o2['exc'])
                        fatal = True
                    break
                else:
                    if tries == 0:
                        r.count('visibly-completed')
                if fatal:
                    break
            elif o['exc']:
                bad('workflow-cannot-continue', 'step %s succeeds%s' % (step, ' after the crash in ' + crashed_step if crashed_step else ''), o['exc'])
                fatal = True
                break
        if not fatal:
            if crashed_step is None:
                bad('crash-point-not-reached', 'the armed mutation is executed', 'workflow finished without reaching it')
            if second and not st8['second_done']:
                bad('second-crash-point-not-reached', 'command %d is issued' % second[0], 'workflow finished earlier')
            for w in list(run.db) + [b'absent']:
                o = run.cli('search', w)
                r['transitions'] += 1
                r.count('final-searches')
                if o['exc']:
                    bad('final-search-fails', run.db.get(w, []), o['exc'])
                    break
                if not sse.result_ok(scheme, o['result'], run.db.get(w, [])):
                    bad('final-search-wrong', run.db.get(w, []), o['result'])
                    break
            else:
                r.outcome('recovered/%s%s' % (side, '/twice' if second else ''))
    except Exception as e:
        if isinstance(e, crashfs.Crash):
            raise
        r.v(PROPERTY, side, 'harness-exception', st8['site'] + ':' + type(e).__name__, dict(case, log=run.log), 'execution completes', core.exc_text(e))
    finally:
        run.close()
    if r['evaluations'] % 11 == 1:
        r.sample(case)


def second_targets(info):
    out = []
    for c, later in enumerate(info.get('later') or []):
        for sd in ('client', 'server'):
            n = len([op for op in later[sd] if op[2] in IN_SCOPE[sd]])
            for j in range(n):
                for when in ('before', 'after'):
                    out.append((c, sd, j, when))
    return out


def run_double(r, seed, wl, pt):
    """every second crash after the recovery from pt: in the retry of the interrupted step or in any later step, client or
    server, before/after every in-scope mutation"""
    info = {}
    run_crash(core.Result(), seed, wl, pt, info=info)      # the single-crash execution (also run, and reported, by the plain units)
    for tgt in second_targets(info):
        run_crash(r, seed, wl, pt, second=tgt, info=info)


def units(tier, seed):
    us = []
    for wl in workloads(tier):
        us.append(('plan/' + wl[0], {'kind': 'plan', 'wl': list(wl)}))
    return us


def run_unit(p, tier, seed):
    """a unit = one workload: baseline + all its crash points (the baseline defines the crash points)"""
    r = core.Result()
    wl = tuple(p['wl'])
    ops, err = baseline(seed, wl[1], wl[2])
    if err:
        r.v(PROPERTY, 'harness', 'baseline-fails', wl[0], {'workload': wl[0]}, 'the uncrashed workflow succeeds', err)
        return r
    pts = crash_points(ops)
    r.count('mutations-recorded', sum(len(v) for v in ops.values()))
    r.count('server-mutations', sum(len(v) for c, v in ops.items() if c.startswith('server')))
    if p.get('sigkill') is not None:
        from mc import loopback
        cand = [x for x in pts if x['step'] in ('create', 'genkey', 'encrypt')]
        sel = cand if p['sigkill'] == 'all' else cand[::max(1, len(cand) // 8)][:8]
        n, bad = loopback.sigkill_replays(seed, wl[1], wl[2], sel)
        r.count('sigkill-replays', n)
        r['evaluations'] += n
        r['traces'] += n
        for b in bad:
            r.v(PROPERTY, 'harness', 'virtual-vs-sigkill-disagreement', 'crashfs', {'workload': wl[0], 'point': b['point']},
                'same directory tree after the virtual kill and after a real SIGKILL', b)
        r.outcome('sigkill-agrees' if not bad else 'sigkill-disagrees')
        r.sample({'sigkill_replay': sel[0] if sel else None}, limit=1)
        det.restore()
        return r
    todo = pts if 'only' not in p else [pts[i] for i in p['only']]
    if p.get('as_user'):
        # the same crash points once more as an ordinary user (root ignores permission bits): first as root, results discarded, so
        # that every module is imported; then in a child that has given up root
        warm = core.Result()
        for pt in todo:
            run_crash(warm, seed, wl, pt)

        def work():
            rr = core.Result()
            for pt in todo:
                run_crash(rr, seed, wl, pt)
            return dict(rr)
        tag, out = det.as_user(work)
        if tag != 'ok':
            r.v(PROPERTY, 'harness', 'unprivileged-run-fails', wl[0], {'workload': wl[0], 'as_user': True, 'only': p.get('only')}, 'the crash points can be run as uid 65534', out)
        else:
            for v in out['violations']:
                c = core.dec(v['case'])
                c['as_user'] = 65534
                r.v(PROPERTY, v['component'], v['kind'], v['site'] + '@uid-65534', c, v['expected'], v['observed'])
            for k in ('evaluations', 'states', 'transitions', 'nontrivial', 'traces'):
                r[k] += out[k]
            r.count('crash-points-as-ordinary-user', len(todo))
            r.outcome('as-user-ok' if not out['violations'] else 'as-user-violations')
        det.restore()
        return r
    for pt in todo:
        if p.get('double'):
            run_double(r, seed, wl, pt)
        else:
            run_crash(r, seed, wl, pt)
    det.restore()
    return r


# the crash points of one workload are independent executions: spread them over the pool
def _expand(units_list, tier, seed):
    out = []
    for uid, p in units_list:
        wl = tuple(p['wl'])
        ops, err = baseline(seed, wl[1], wl[2])
        n = len(crash_points(ops)) if ops else 0
        if not n:
            out.append((uid, p))
            continue
        for lo in range(0, n, 6):
            out.append(('%s/%d' % (uid, lo), dict(p, only=list(range(lo, min(lo + 6, n))))))
        if wl[0] == 'PiBas-small':
            out.append(('%s/sigkill' % uid, dict(p, sigkill=('all' if tier != 'quick' else 'some'))))
        if wl[0] in ('PiBas-small', 'PiBas-small-cli') and os.getuid() == 0:
            for lo in range(0, n, 8):
                out.append(('%s/as-user/%d' % (uid, lo), dict(p, as_user=True, only=list(range(lo, min(lo + 8, n))))))
        if wl[0] == 'PiBas-small' or (tier != 'quick' and wl[0] in ('PiBas-small-cli', 'PiBas-big')):
            for lo in range(0, n, 4):
                out.append(('%s/double/%d' % (uid, lo), dict(p, double=True, only=list(range(lo, min(lo + 4, n))))))
    return out


def main(tier):
    """custom driver: the plan (baseline) is computed in a child process so that the parent never imports the front end"""
    import time, multiprocessing
    t0 = time.time()
    ctx = multiprocessing.get_context('fork')
    with ctx.Pool(1) as pool:
        expanded = pool.apply(_expand, (units(tier, core.SEED), tier, core.SEED))
    import types
    mod = types.SimpleNamespace(**{k: v for k, v in globals().items()})
    mod.units = lambda tier_, seed_: expanded
    mod.__name__ = __name__
    total = core.run_units(mod, tier)
    return core.report(mod, tier, total, time.time() - t0)


def replay(case, seed):
    r = core.Result()
    if 'point' in case:
        from mc import loopback
        n, bad = loopback.sigkill_replays(seed, 'CJJ14.PiBas', 'small', [case['point']])
        for b in bad:
            r.v(PROPERTY, 'harness', 'virtual-vs-sigkill-disagreement', 'crashfs', case, 'same tree', b)
        return r['violations']
    wl = (case['workload'], case['scheme'], case['db'])
    if case.get('second_crash'):
        info = {}
        run_crash(core.Result(), seed, wl, case['crash'], info=info)
        sc = case['second_crash']
        run_crash(r, seed, wl, case['crash'], second=(sc['command'], sc['side'], sc['mutation'], sc['when']), info=info)
        return r['violations']
    if case.get('as_user'):
        run_crash(core.Result(), seed, wl, case['crash'])

        def work():
            rr = core.Result()
            run_crash(rr, seed, wl, case['crash'])
            return dict(rr)
        tag, out = det.as_user(work)
        for v in (out['violations'] if tag == 'ok' else []):
            r.v(PROPERTY, v['component'], v['kind'], v['site'] + '@uid-65534', case, v['expected'], v['observed'])
        return r['violations']
    run_crash(r, seed, wl, case['crash'])
    return r['violations']
