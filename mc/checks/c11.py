"""C11 - client workflow: steps out of order are refused and the key is write-once (engine E2 on E3)."""
import os, pickle, copy, hashlib, itertools
from mc import core, det, vnet, fe, xstate, sse

PROPERTY = 'C11'
ENGINE = 'E2 explicit-state search (BFS to fixpoint + all histories to depth k, no dedup) over the real client Service (fresh object per operation, CLI style) against a live server on the E3 virtual network'
LEVEL = 'model_checking'
DIRECTED_ADDITIONS = 'the same model through frontend/client/commands.py, create-again, two uninstantiable configurations, create-matrix over all nine schemes'      # members added during the seeded-change campaign (DESIGN 7); counted under their own vacuity counters

ALPHABET = ['create', 'create-invalid', 'create-invalid2', 'create-again', 'genkey', 'encrypt', 'upload-config', 'upload-index', 'search']
DEPTH = {'quick': 5, 'thorough': 6}
B_CREATED, B_CFG_UP, B_KEY, B_ENC, B_IDX_UP = 1, 2, 4, 8, 16
NO_SID = 'f' * 64


def describe(tier):
    d = _describe(tier)
    d['rule'] = d['rule'] + ' Directed additions: ' + DIRECTED_ADDITIONS + '.'
    return d


def _describe(tier):
    return {
        'rule': 'state = history of client operations (incl. create-again: the create command given the existing service\'s own salted configuration), each executed CLI-style by a client object freshly loaded from disk (Service(sid) ... '
                'close_service()) against a live server on the virtual network; alphabet = {create(valid cfg), create(cfg the scheme rejects), '
                'genkey, encrypt(DB), upload-config, upload-index, search(w)}. Reference model = 5 flags with the prerequisite relation of '
                'frontend/README.md. (a) BFS to fixpoint over canon = (model flags, persisted client flags, client file names, server state and '
                'file names); (b) every history of length <= %d without deduplication. Oracle per step: accepted/refused as the model says '
                '(refused = the handler raises); after a refusal the client service directory is byte-identical; persisted flags equal the model\'s; '
                'the key file never changes after first creation; an uninstantiable configuration creates nothing; once the index is uploaded every '
                'search returns DB[w]. non-trivial = history with at least one accepted operation.' % DEPTH[tier],
        'bounds': 'alphabet 8; BFS fixpoint; all histories of length <= %d' % DEPTH[tier],
        'assumptions': ['the server cleanup delay elapses between two CLI commands (each command is a separate process run in reality)',
                        'scheme = CJJ14.PiBas (thorough: also CT14.Pi); the guards under test are scheme-independent'],
        'must_be_nonzero': ['bfs-fixpoint', 'dfs-histories', 'refused', 'accepted', 'searches-after-upload', 'key-checked', 'create-matrix/instantiable', 'create-matrix/not-instantiable'],
        'cli_level': 'the same BFS + DFS (depth one less) is repeated through frontend/client/commands.py with 10 commands incl. create from a missing / truncated-JSON file',
    }


def units(tier, seed):
    schemes_ = ['CJJ14.PiBas'] + (['CT14.Pi'] if tier != 'quick' else [])
    us = []
    for name in schemes_:
        us.append(('bfs/' + name, {'kind': 'bfs', 'scheme': name}))
        for a, b in itertools.product(ALPHABET, repeat=2):
            us.append(('dfs/%s/%s/%s' % (name, a, b), {'kind': 'dfs', 'scheme': name, 'prefix': [a, b]}))
        us.append(('dfs-short/' + name, {'kind': 'dfs-short', 'scheme': name}))
    us.append(('create-matrix', {'kind': 'create-matrix', 'scheme': 'all'}))
    # the same model through frontend/client/commands.py, all commands of a history in one process
    us.append(('cli-bfs', {'kind': 'bfs', 'scheme': 'CJJ14.PiBas', 'cli': True}))
    for a, b in itertools.product(CLI_ALPHABET, repeat=2):
        us.append(('cli-dfs/%s/%s' % (a, b), {'kind': 'dfs', 'scheme': 'CJJ14.PiBas', 'prefix': [a, b], 'cli': True}))
    return us


class Sut:
    pass


def other_service_only(before, after, own_sid):
    """name of the one new top-level directory if EVERYTHING that changed lies below it (and it is not the service's own)"""
    changed = [k for k in set(after) | set(before) if after.get(k) != before.get(k)]
    tops = {k.split('/')[0] for k in changed}
    if len(tops) == 1:
        top = next(iter(tops))
        if top and top != own_sid and not any(k.split('/')[0] == top for k in before):
            return top
    return None


class ClientSystem:
    def __init__(self, seed, name):
        self.seed, self.name = seed, name
        self.m = fe.mods()
        g = det.rng(seed, 'c11-db')
        self.db = {b'kw': [g.randbytes(8), g.randbytes(8)], b'k2': [g.randbytes(8)]}
        self.cfg = sse.base_cfg(name)
        self.cfg['param_identifier_size'] = 8
        self.bad_cfg = dict(self.cfg)
        self.bad_cfg['param_lambda' if 'param_lambda' in self.cfg else 'param_k_prime'] = 17
        self.bad_cfg2 = dict(self.cfg)
        self.bad_cfg2['param_lambda' if 'param_lambda' in self.cfg else 'param_k_prime'] = 64      # an AES-XTS size, not an AES-CBC key size

    def fresh(self):
        s = Sut()
        det.seed_case(self.seed, PROPERTY, self.name)
        s.w = fe.World(eager=True)
        s.w.start_server()
        s.cl = fe.ClientDriver(s.w)
        s.flags = 0
        s.key_bytes = None
        s.extra_dirs = []
        return s

    def dispose(self, s):
        for d in s.extra_dirs:
            import shutil
            shutil.rmtree(d, ignore_errors=True)
        s.w.close()

    def events(self, s):
        # 'create-again' = the CLI's create command (a brand-new Service object) given the existing service's own, already
        # salted configuration: it hashes to the same sid and must be refused like any second create
        return ALPHABET if s.flags & B_CREATED else [e for e in ALPHABET if e != 'create-again']

    def client_snapshot(self, s):
        root = str(self.m['cfm']._PROGRAM_PATH)
        out = {}
        for dp, dn, fn in os.walk(root):
            for f in fn:
                p = os.path.join(dp, f)
                with open(p, 'rb') as fh:
                    out[os.path.relpath(p, root)] = fh.read()
            for d in dn:
                out[os.path.relpath(os.path.join(dp, d), root) + '/'] = b''
        return out

    def persisted_flags(self, s):
        if not s.cl.sid:
            return None
        f = s.w.client_files(s.cl.sid)
        if 'service_meta' not in f:
            return None
        try:
            return pickle.loads(f['service_meta']).get('state')
        except Exception:
            return 'unreadable'

    def model_accepts(self, s, ev):
        f = s.flags
        if ev == 'create':
            return not f & B_CREATED
        if ev in ('create-invalid', 'create-invalid2', 'create-again'):
            return False
        if ev == 'genkey':
            return bool(f & B_CREATED) and not f & B_KEY
        if ev == 'encrypt':
            return bool(f & B_CREATED) and bool(f & B_KEY) and not f & B_ENC
        if ev == 'upload-config':
            return bool(f & B_CREATED) and not f & B_CFG_UP
        if ev == 'upload-index':
            return bool(f & B_CFG_UP) and bool(f & B_KEY) and bool(f & B_ENC) and not f & B_IDX_UP
        if ev == 'search':
            return bool(f & B_IDX_UP)

    def step(self, s, ev):
        probs = []
        cl = s.cl
        before = self.client_snapshot(s)
        accept = self.model_accepts(s, ev)
        raised, result = None, None
        try:
            if ev == 'create-again':
                import json as _json
                cfg = _json.loads(s.w.client_files(cl.sid)['config.json'])
                Service = self.m['cservice'].Service
                fresh = cl._call(lambda: Service())
                cl._call(fresh.handle_create_config, cfg)
            elif ev in ('create', 'create-invalid', 'create-invalid2'):
                cfg = copy.deepcopy(self.cfg if ev == 'create' else self.bad_cfg if ev == 'create-invalid' else self.bad_cfg2)
                if not cl.sid:
                    sid_before = set(os.listdir(str(self.m['cfm']._PROGRAM_PATH)))
                    try:
                        cl.create(cfg)
                    finally:
                        new = set(os.listdir(str(self.m['cfm']._PROGRAM_PATH))) - sid_before
                        for d in new:
                            s.extra_dirs.append(os.path.join(str(self.m['cfm']._PROGRAM_PATH), d))
                            s.w.sids.append(d)
                else:
                    cl.load()
                    cl._call(cl.svc.handle_create_config, cfg)
            else:
                if not cl.sid:
                    cl.sid = NO_SID          # the CLI takes --sid from the user: a well-formed id of a service that does not exist
                    try:
                        cl.load()
                    finally:
                        cl.sid = ''
                else:
                    cl.load()
                if ev == 'genkey':
                    cl.genkey()
                elif ev == 'encrypt':
                    cl.encrypt(copy.deepcopy(self.db))
                elif ev == 'upload-config':
                    ack = cl.upload_config()
                    if not ack or not ack[0].get('ok'):
                        raised = ValueError('server refused: %r' % (ack,))
                elif ev == 'upload-index':
                    ack = cl.upload_index()
                    if not ack or not ack[0].get('ok'):
                        raised = ValueError('server refused: %r' % (ack,))
                elif ev == 'search':
                    result = {}
                    for w in self.db:
                        got = cl.search(w)
                        result[w] = cl.svc.sse_module_loader.SSEResult.deserialize(got[0], cl.svc.config_object).get_result_list() if got else None
        except Exception as e:
            raised = e
        # the CLI's finally clause (only the commands that open a connection call close_service())
        if ev in ('upload-config', 'upload-index', 'search'):
            try:
                cl.drop()
            except Exception as e:
                if raised is None:
                    raised = e
        cl.svc = None
        fe.settle(s.w.loop, timers=True)      # the next command is a later process run: the server has cleaned up
        after = self.client_snapshot(s)
        if accept:
            if raised is not None:
                probs.append(('valid-operation-refused', '%s:%s' % (ev, type(raised).__name__), 'accepted', core.exc_text(raised)))
            else:
                s.flags |= {'create': B_CREATED, 'genkey': B_KEY, 'encrypt': B_ENC, 'upload-config': B_CFG_UP, 'upload-index': B_IDX_UP}.get(ev, 0)
                if ev == 'search':
                    for w, ids in self.db.items():
                        if result.get(w) != ids:
                            probs.append(('search-wrong-after-upload', 'search', ids, result.get(w)))
        else:
            other = other_service_only(before, after, s.cl.sid) if ev == 'create-again' and raised is None else None
            if other:
                # the service id is a hash of pickle.dumps(config), which is not canonical (two equal strings pickle differently
                # depending on whether they are one object): the salted configuration read back from config.json may therefore name
                # ANOTHER service.  Creating another service is not a redo of a step of this one; this one must be untouched.
                probs.append(('observation', 'create-again-made-another-service', None, None))
                import shutil
                shutil.rmtree(os.path.join(str(self.m['cfm']._PROGRAM_PATH), other), ignore_errors=True)
            else:
                if raised is None:
                    probs.append(('invalid-operation-accepted', '%s/flags=%s' % (ev, format(s.flags, '05b')), 'refused with an error', 'accepted'))
                if after != before:
                    changed = sorted(k for k in set(after) | set(before) if after.get(k) != before.get(k))
                    probs.append(('refused-operation-changed-files', '%s/flags=%s' % (ev, format(s.flags, '05b')), 'client files byte-identical', changed))
        # persisted flags
        pf = self.persisted_flags(s)
        if s.flags and pf != s.flags:
            probs.append(('persisted-flags-differ', ev, format(s.flags, '05b'), pf if not isinstance(pf, int) else format(pf, '05b')))
        if not s.flags and pf not in (None, 0):
            probs.append(('persisted-flags-differ', ev, 'no service', pf))
        # key write-once
        if s.cl.sid:
            kb = s.w.client_files(s.cl.sid).get('key')
            if s.flags & B_KEY:
                if s.key_bytes is None:
                    s.key_bytes = kb
                elif kb != s.key_bytes:
                    probs.append(('key-changed', ev, 'key bytes unchanged since creation', 'missing' if kb is None else 'different bytes'))
            elif kb is not None:
                probs.append(('key-exists-without-flag', ev, 'no key file', 'key file present'))
        return probs

    def canon(self, s):
        cf = tuple(sorted(s.w.client_files(s.cl.sid))) if s.cl.sid else ()
        sf = tuple(sorted(s.w.server_files(s.cl.sid))) if s.cl.sid else ()
        sstate = None
        if s.cl.sid and 'service_meta' in s.w.server_files(s.cl.sid):
            try:
                sstate = pickle.loads(s.w.server_files(s.cl.sid)['service_meta']).get('state')
            except Exception:
                sstate = 'unreadable'
        ndirs = len([d for d in os.listdir(str(self.m['cfm']._PROGRAM_PATH))])
        return (s.flags, self.persisted_flags(s), cf, sf, sstate, bool(s.cl.sid), ndirs)


CLI_ALPHABET = ['create', 'create-invalid', 'create-missing-file', 'create-bad-json', 'create-again', 'genkey', 'encrypt', 'upload-config',
                'upload-index', 'search']


class CliSystem(ClientSystem):
    """the same reference model, driven through frontend/client/commands.py - the module behind run_client.py - with every
    command of a history issued in ONE process (as an interactive session or a script would): the module keeps the last
    Service object in a global, prints instead of raising, and maps service names to ids"""
    counter = [0]

    def __init__(self, seed, name):
        super().__init__(seed, name)
        import frontend.client.commands as commands
        self.commands = commands

    def fresh(self):
        import json as _json
        s = super().fresh()
        setattr(self.commands, '__client_service', None)
        s.files = det.workdir('c11cli')
        s.cfg_path = os.path.join(s.files, 'cfg.json')
        s.bad_path = os.path.join(s.files, 'bad.json')
        s.junk_path = os.path.join(s.files, 'junk.json')
        s.again_path = os.path.join(s.files, 'again.json')
        s.db_path = os.path.join(s.files, 'db.json')
        _json.dump(self.cfg, open(s.cfg_path, 'w'))
        _json.dump(self.bad_cfg, open(s.bad_path, 'w'))
        open(s.junk_path, 'w').write('{"scheme": "CJJ14.PiBas", "param_lambda": ')
        _json.dump({w.decode(): [x.hex() for x in ids] for w, ids in self.db.items()}, open(s.db_path, 'w'))
        s.sid = ''
        return s

    def dispose(self, s):
        import shutil
        shutil.rmtree(s.files, ignore_errors=True)
        super().dispose(s)

    def events(self, s):
        # through the CLI a plain `create` always makes a NEW, independent service (fresh salt, fresh sid), which is legitimate;
        # the history follows one service, so `create` is offered only while there is none; the refused variants always are
        if s.flags & B_CREATED:
            return [e for e in CLI_ALPHABET if e != 'create']
        return [e for e in CLI_ALPHABET if e != 'create-again']

    def model_accepts(self, s, ev):
        if ev in ('create-missing-file', 'create-bad-json'):
            return False
        return super().model_accepts(s, ev)

    def persisted_flags(self, s):
        s.cl.sid = s.sid
        return super().persisted_flags(s)

    def step(self, s, ev):
        import io, contextlib, ast, re
        probs = []
        cmd = self.commands
        before = self.client_snapshot(s)
        accept = self.model_accepts(s, ev)
        sid = s.sid or NO_SID
        self.counter[0] += 1
        out = io.StringIO()

        def run(f, *a, **k):
            async def wrapper():
                res = f(*a, **k)
                if hasattr(res, '__await__'):
                    res = await res
                return res
            t = s.w.loop.spawn(wrapper(), 'client#1')
            s.w.loop.run_until(t.done)
            return t.result()
        exc = None
        try:
            with contextlib.redirect_stdout(out):
                if ev.startswith('create'):
                    path = {'create': s.cfg_path, 'create-invalid': s.bad_path, 'create-missing-file': os.path.join(s.files, 'nope.json'),
                            'create-bad-json': s.junk_path, 'create-again': s.again_path}[ev]
                    if ev == 'create-again':
                        open(s.again_path, 'wb').write(s.w.client_files(s.sid)['config.json'])
                    known = set(os.listdir(str(self.m['cfm']._PROGRAM_PATH)))
                    try:
                        run(cmd.create_service, path, 'svc%d-%d' % (os.getpid(), self.counter[0]))
                    finally:
                        for d in set(os.listdir(str(self.m['cfm']._PROGRAM_PATH))) - known:
                            if os.path.isdir(os.path.join(str(self.m['cfm']._PROGRAM_PATH), d)):
                                s.extra_dirs.append(os.path.join(str(self.m['cfm']._PROGRAM_PATH), d))
                                s.w.sids.append(d)
                elif ev == 'genkey':
                    run(cmd.generate_key, sid=sid)
                elif ev == 'encrypt':
                    run(cmd.encrypt_database, s.db_path, sid=sid)
                elif ev == 'upload-config':
                    run(cmd.upload_config, sid=sid)
                elif ev == 'upload-index':
                    run(cmd.upload_encrypted_database, sid=sid)
                elif ev == 'search':
                    for w in self.db:
                        run(cmd.search, w.decode(), 'raw', sid=sid)
        except Exception as e:
            exc = e
        text = out.getvalue()
        fe.settle(s.w.loop, timers=True)
        refused = exc is not None or bool(re.search(r'error', text, re.I)) or 'Unsupported' in text
        if ev == 'create' and not refused:
            m_ = re.search(r'>>> sid: (\w+)', text)
            if m_:
                s.sid = m_.group(1)
                s.cl.sid = s.sid
        after = self.client_snapshot(s)
        if accept:
            if refused:
                probs.append(('valid-operation-refused', 'cli/%s' % ev, 'accepted', (core.exc_text(exc) if exc else text.strip()[-200:])))
            else:
                s.flags |= {'create': B_CREATED, 'genkey': B_KEY, 'encrypt': B_ENC, 'upload-config': B_CFG_UP, 'upload-index': B_IDX_UP}.get(ev, 0)
                if ev == 'search':
                    got = re.findall(r'>>> The result is (\[.*?\])\.\n', text)
                    want = [list(ids) for ids in self.db.values()]
                    try:
                        got = [ast.literal_eval(g) for g in got]
                    except Exception:
                        pass
                    if got != want:
                        probs.append(('search-wrong-after-upload', 'cli/search', want, got))
        else:
            if not refused:
                probs.append(('invalid-operation-accepted', 'cli/%s/flags=%s' % (ev, format(s.flags, '05b')), 'refused with an error', text.strip()[-200:]))
            if after != before:
                changed = sorted(k for k in set(after) | set(before) if after.get(k) != before.get(k))
                probs.append(('refused-operation-changed-files', 'cli/%s/flags=%s' % (ev, format(s.flags, '05b')), 'client files byte-identical', changed))
        pf = self.persisted_flags(s)
        if s.flags and pf != s.flags:
            probs.append(('persisted-flags-differ', 'cli/' + ev, format(s.flags, '05b'), pf if not isinstance(pf, int) else format(pf, '05b')))
        if s.sid:
            kb = s.w.client_files(s.sid).get('key')
            if s.flags & B_KEY:
                if s.key_bytes is None:
                    s.key_bytes = kb
                elif kb != s.key_bytes:
                    probs.append(('key-changed', 'cli/' + ev, 'key bytes unchanged since creation', 'missing' if kb is None else 'different bytes'))
        return probs

    def canon(self, s):
        s.cl.sid = s.sid
        return super().canon(s)


def run_create_matrix(r, seed):
    """'a configuration that the chosen scheme cannot be instantiated with does not create a service' for EVERY scheme: the shipped
    default configuration exactly as the CLI generates it (JSON round trip), a small valid one, and the default with one field
    deleted / a wrong key size / an unknown primitive.  Instantiable (decided by constructing the scheme, not by the client's
    own check) <=> a service is created; a refusal leaves no directory behind."""
    import importlib, json as _json
    m = fe.mods()
    root = str(m['cfm']._PROGRAM_PATH)
    for name in sse.SCHEMES:
        cfgmod = importlib.import_module('schemes.%s.config' % name)
        default = _json.loads(_json.dumps(cfgmod.DEFAULT_CONFIG))
        variants = [('shipped-default', default), ('small-valid', _json.loads(_json.dumps(sse.finalize_cfg(name, sse.base_cfg(name), {b'w': [b'x']}))))]
        keyf = next((f for f in ('param_lambda', 'param_k', 'param_k_prime') if f in default), None)
        first = next(f for f in default if f != 'scheme')
        variants.append(('field-deleted', {k: v for k, v in default.items() if k != first}))
        if keyf:
            variants.append(('key-size-17', dict(default, **{keyf: 17})))
        prim = next((f for f in default if isinstance(default[f], str) and f != 'scheme'), None)
        if prim:
            variants.append(('unknown-primitive', dict(default, **{prim: 'no-such-primitive'})))
        variants.append(('unknown-scheme', dict(default, scheme='No.Such')))
        for label, cfg in variants:
            case = {'create_matrix': name, 'variant': label}
            core.note_case(case)
            r['evaluations'] += 1
            r['states'] += 1
            r['transitions'] += 1
            try:
                import schemes as _schemes
                L = _schemes.load_sse_module(cfg.get('scheme'))
                L.SSEScheme(copy.deepcopy(cfg))
                instantiable = True
            except Exception:
                instantiable = False
            r.count('create-matrix/' + ('instantiable' if instantiable else 'not-instantiable'))
            w = fe.World(eager=True)
            try:
                det.seed_case(seed, PROPERTY, 'create-matrix', name, label)
                cl = fe.ClientDriver(w)
                before = set(os.listdir(root))
                raised = None
                try:
                    cl.create(copy.deepcopy(cfg))
                except Exception as e:
                    raised = e
                new = sorted(set(os.listdir(root)) - before)
                for dname in new:
                    w.client_sids.append(dname)
                if instantiable:
                    r['nontrivial'] += 1
                    if raised is not None:
                        r.v(PROPERTY, 'client', 'valid-operation-refused', 'create-matrix/%s:%s' % (label, type(raised).__name__), case, 'service created', core.exc_text(raised))
                    elif len(new) != 1 or not {'config.json', 'service_meta'} <= set(os.listdir(os.path.join(root, new[0]))):
                        r.v(PROPERTY, 'client', 'service-not-created', 'create-matrix/' + label, case, 'one service directory with config.json and service_meta', new)
                    else:
                        r.outcome('create-matrix/created')
                else:
                    if raised is None:
                        r.v(PROPERTY, 'client', 'invalid-operation-accepted', 'create-matrix/' + label, case, 'refused with an error (the scheme cannot be instantiated with it)', 'accepted')
                    if new:
                        r.v(PROPERTY, 'client', 'refused-operation-changed-files', 'create-matrix/' + label, case, 'no service directory', new)
                    if raised is not None and not new:
                        r.outcome('create-matrix/refused')
            finally:
                w.close()
    r.sample({'create_matrix': 'all 9 schemes x {shipped default via JSON, small valid, field deleted, key size 17, unknown primitive, unknown scheme}'}, limit=1)


def run_unit(p, tier, seed):
    r = core.Result()
    if p['kind'] == 'create-matrix':
        run_create_matrix(r, seed)
        det.restore()
        return r
    system = (CliSystem if p.get('cli') else ClientSystem)(seed, p['scheme'])
    ALPHABET_ = CLI_ALPHABET if p.get('cli') else ALPHABET

    def on_problem(hist, ev, prob):
        if prob[0] == 'observation':
            r.count(prob[1])
            return
        r.v(PROPERTY, 'client', prob[0], prob[1], {'scheme': p['scheme'], 'history': list(hist), 'event': ev, 'engine': p['kind'], 'cli': bool(p.get('cli'))}, prob[2], prob[3])
        r.outcome(prob[0])

    if p['kind'] == 'bfs':
        st, seen = xstate.bfs(system, on_problem, max_states=3000)
        r['states'] += st.states
        r['transitions'] += st.transitions
        r['evaluations'] += st.transitions
        r['traces'] += st.rebuilds
        r['nontrivial'] += sum(1 for c in seen if c[0])
        r.count('bfs-fixpoint')
        r.count('accepted', st.states - 1)
        r.count('refused', st.transitions - st.states + 1)
        r.count('searches-after-upload', sum(1 for c in seen if c[0] & B_IDX_UP))
        r.count('key-checked', sum(1 for c in seen if c[0] & B_KEY))
        if st.capped:
            r['caps'].append('C11 BFS state cap hit')
        r.outcome('bfs-fixpoint/states=%d' % st.states)
        longest = max(seen.values(), key=len)
        r.sample({'scheme': p['scheme'], 'states': st.states, 'transitions': st.transitions, 'max_depth': st.max_depth,
                  'a_deepest_history': list(longest), 'flag_sets_reached': sorted({format(c[0], '05b') for c in seen})})
    else:
        depth = DEPTH[tier]
        count = [0]

        def run_hist(hist):
            s = system.fresh()
            try:
                for i, ev in enumerate(hist):
                    if p.get('cli') and ev not in system.events(s):
                        return
                    for prob in system.step(s, ev):
                        on_problem(hist[:i], ev, prob)
                    r['transitions'] += 1
                if s.flags:
                    r['nontrivial'] += 1
                    r.count('accepted')
                if s.flags & B_IDX_UP:
                    r.count('searches-after-upload')
                if s.flags & B_KEY:
                    r.count('key-checked')
            finally:
                system.dispose(s)

        def rec(hist):
            run_hist(hist)
            count[0] += 1
            r['evaluations'] += 1
            r['traces'] += 1
            r.count('dfs-histories')
            r.count('refused')
            if len(hist) < depth - (1 if p.get('cli') else 0):
                for ev in ALPHABET_:
                    rec(hist + [ev])
        if p['kind'] == 'dfs':
            rec(list(p['prefix']))
        else:
            for ev in ALPHABET_:
                run_hist([ev])
                r['evaluations'] += 1
                r.count('dfs-histories')
        r.outcome('dfs-complete')
        r.sample({'scheme': p['scheme'], 'dfs_prefix': p.get('prefix'), 'depth': depth, 'histories': count[0]}, limit=1)
    det.restore()
    return r


def replay(case, seed):
    r = core.Result()
    if 'create_matrix' in case:
        run_create_matrix(r, seed)
        return [v for v in r['violations'] if v['case'].get('create_matrix') == case['create_matrix'] and v['case'].get('variant') == case['variant']]
    system = (CliSystem if case.get('cli') else ClientSystem)(seed, case['scheme'])
    s = system.fresh()
    try:
        for ev in case['history']:
            system.step(s, ev)
        for prob in system.step(s, case['event']):
            if prob[0] != 'observation':
                r.v(PROPERTY, 'client', prob[0], prob[1], case, prob[2], prob[3])
    finally:
        system.dispose(s)
    return r['violations']

# a subset of the units is executed again in other environments (child interpreters): see core.run_variants
ENV_VARIANTS = [{'name': 'python-O', 'flags': ['-O']}]

def variant_units(tier, seed, name):
    pred = lambda uid, p: p.get('kind') in ('bfs', 'create-matrix') and not p.get('cli')
    return [u for u in units('quick', seed) if pred(u[0], u[1])]

