"""C16 - PRF and hash wrappers against independent references (engine E1)."""
import hmac, hashlib, itertools
from mc import core, det

PROPERTY = 'C16'
ENGINE = 'E1 bounded-exhaustive enumeration of (digest, key length, message length, output length) against independent RFC 5246 P_hash / counter-mode references'
LEVEL = 'model_checking'
DIRECTED_ADDITIONS = 'call histories on one object, all ordered pairs of wrapper objects, outputs of 255..257 blocks and 70000 bytes, KiB messages, keyword calls, copied objects, four PRF objects alive at once'      # members added during the seeded-change campaign (DESIGN 7); counted under their own vacuity counters

PRF_DIGESTS = ['sha1', 'sha256', 'sha512', 'md5']
HASH_DIGESTS = PRF_DIGESTS + ['shake_128', 'shake_256']
TLS_SECRET = bytes.fromhex('9bbe436ba940f017b17652849a71db35')
TLS_SEED = bytes.fromhex('a0ba9f936cda311827a6f796ffd5198c')
TLS_LABEL = b'test label'
TLS_OUT = bytes.fromhex('e3f229ba727be17b8d122620557cd453c2aab21d07c3d495329b52d4e61edb5a6b301791e90d35c9c9a46b4e14baf9af0f'
                        'a022f7077def17abfd3797c0564bab4fbc91666e9def9b97fce34f796789baa48082d122ee42c5a72e5a5110fff70187347b66')


def p_hash(key, msg, n, h):
    """RFC 5246 section 5, written independently of the implementation"""
    out, a = b'', msg
    while len(out) < n:
        a = hmac.new(key, a, h).digest()
        out += hmac.new(key, a + msg, h).digest()
    return out[:n]


def ctr_hash(msg, n, h):
    out, c = b'', 1
    while len(out) < n:
        out += hashlib.new(h, msg + c.to_bytes((c.bit_length() + 7) // 8, 'big')).digest()
        c += 1
    return out[:n]


def grid(tier, h):
    ds = hashlib.new(h).digest_size if not h.startswith('shake') else 32
    bs = hashlib.new(h).block_size
    if tier == 'quick':
        keys = sorted({0, 1, 8, 16, 32, bs - 1, bs, bs + 1, 80})
        msgs = list(range(0, 201))
        outs = sorted({1, 2, ds - 1, ds, ds + 1, 2 * ds - 1, 2 * ds, 2 * ds + 1, 3 * ds, 100, 199, 200})
    else:
        keys = list(range(0, 81))
        msgs = list(range(0, 201))
        outs = list(range(1, 201))
    return keys, msgs, outs


def describe(tier):
    d = _describe(tier)
    d['rule'] = d['rule'] + ' Directed additions: ' + DIRECTED_ADDITIONS + '.'
    return d


def _describe(tier):
    return {
        'rule': 'PRF: case = (digest in {sha1,sha256,sha512,md5}, key length, message length, output length); %s; oracle: '
                'get_prf_implementation("HmacPRF")(output_length=n, hash_func_name=h)(k, m) == independent RFC 5246 P_hash(k, m)[:n], len == n, '
                'a second call returns the same bytes; the published TLS 1.2 P_SHA256 vector anchors the reference AND the implementation. '
                'Hash wrapper: digests + shake_128/256, message lengths and output lengths from the same grids (plus 1000): equals '
                'H(m || minimal-big-endian(c)), c = 1,2,... truncated, or shake.digest(n). Distinctness: 2000 distinct (k, m) pairs with one '
                'fixed key length, n in {16, 20, 32}: pairwise distinct outputs. Contracts: declared key/message length violated -> ValueError; '
                'unknown digest names -> ValueError; default output length == digest size. non-trivial = output length > digest size or message non-empty.'
                % ('boundary grid for key and output lengths (0, 1, block-1, block, block+1, digest+-1, multiples of the digest, 200) x ALL message lengths 0..200' if tier == 'quick'
                   else 'the FULL box keys 0..80 x messages 0..200 x outputs 1..200'),
        'bounds': 'quick: boundary grid; thorough: full box 81 x 201 x 200 per digest',
        'assumptions': ['key and message bytes are DRBG values (one per length); distinctness is decided on a 2000-element DRBG set'],
        'must_be_nonzero': ['prf-equal-reference', 'hash-equal-reference', 'tls-vector', 'hash-long-output-equal-reference', 'prf-long-output-equal-reference', 'prf-objects-alive-at-once', 'prf-object-forms', 'contract-refused', 'distinct-set', 'prf-histories'],
    }


def units(tier, seed):
    us = []
    for h in PRF_DIGESTS:
        keys, msgs, outs = grid(tier, h)
        step = 3 if tier == 'quick' else 1
        for i in range(0, len(keys), step):
            us.append(('prf/%s/%d' % (h, keys[i]), {'kind': 'prf', 'h': h, 'keys': keys[i:i + step]}))
    for h in HASH_DIGESTS:
        us.append(('hash/%s' % h, {'kind': 'hash', 'h': h}))
    us.append(('tls', {'kind': 'tls'}))
    us.append(('distinct', {'kind': 'distinct'}))
    us.append(('contracts', {'kind': 'contracts'}))
    us.append(('histories', {'kind': 'histories'}))
    return us


def run_unit(p, tier, seed):
    from toolkit.prf import get_prf_implementation
    from toolkit.hash import get_hash_implementation
    r = core.Result()
    kind = p['kind']
    if kind == 'prf':
        PRF = get_prf_implementation('HmacPRF')
        h = p['h']
        _, msgs, outs = grid(tier, h)
        ds = hashlib.new(h).digest_size
        impls = {n: PRF(output_length=n, hash_func_name=h) for n in outs}
        for kl in p['keys']:
            g = det.rng(seed, 'c16', h, kl)
            key = g.randbytes(kl)
            for ml in msgs:
                msg = g.randbytes(ml)
                ref = p_hash(key, msg, max(outs), h)
                r['states'] += 1
                for n in outs:
                    r['evaluations'] += 1
                    r['transitions'] += 1
                    if n > ds or ml:
                        r['nontrivial'] += 1
                    try:
                        got = impls[n](key, msg)
                    except Exception as e:
                        r.v(PROPERTY, 'HmacPRF', 'raises', '%s:%s' % (core.exc_site(e), type(e).__name__),
                            {'digest': h, 'key_length': kl, 'message_length': ml, 'output_length': n}, 'n bytes', core.exc_text(e))
                        continue
                    if got != ref[:n]:
                        kind_ = 'length' if len(got) != n else ('first-block' if got[:min(n, ds)] != ref[:min(n, ds)] else 'later-block')
                        r.v(PROPERTY, 'HmacPRF', 'differs-from-rfc5246', kind_,
                            {'digest': h, 'key_length': kl, 'message_length': ml, 'output_length': n}, ref[:n].hex(), got.hex())
                    else:
                        r.count('prf-equal-reference')
                # determinism on one output length per (k, m)
                n = outs[(kl + ml) % len(outs)]
                r['transitions'] += 1
                if impls[n](key, msg) != impls[n](key, msg):
                    r.v(PROPERTY, 'HmacPRF', 'determinism', 'repeat', {'digest': h, 'key_length': kl, 'message_length': ml, 'output_length': n}, 'equal', 'differs')
            # outputs of hundreds of HMAC blocks, messages of several KiB (one key per unit)
            if kl == p['keys'][0]:
                for ml, n in ((0, 255 * ds + 1), (5, 256 * ds), (200, 257 * ds + 5), (5000, 40), (5000, 3 * ds + 1), (4096, ds), (4097, 2 * ds), (70000, ds + 1)):
                    msg = g.randbytes(ml)
                    r['evaluations'] += 1
                    r['transitions'] += 1
                    c_ = {'digest': h, 'key_length': kl, 'message_length': ml, 'output_length': n}
                    try:
                        got = PRF(output_length=n, hash_func_name=h)(key, msg)
                    except Exception as e:
                        r.v(PROPERTY, 'HmacPRF', 'raises', '%s:%s' % (core.exc_site(e), type(e).__name__), c_, 'n bytes', core.exc_text(e))
                        continue
                    if got != p_hash(key, msg, n, h):
                        r.v(PROPERTY, 'HmacPRF', 'differs-from-rfc5246', 'long-output-or-message', c_, 'reference P_hash', 'differs (%d bytes returned)' % len(got))
                    else:
                        r.count('prf-long-output-equal-reference')
        r.outcome('prf-ok/' + h)
        r.sample({'prim': 'HmacPRF', 'digest': h, 'key_lengths': p['keys'], 'message_lengths': [msgs[0], msgs[-1]], 'output_lengths': [outs[0], outs[-1]]})
    elif kind == 'hash':
        h = p['h']
        H = get_hash_implementation(h)
        _, msgs, outs = grid(tier, h)
        outs = outs + [1000]
        g = det.rng(seed, 'c16-hash', h)
        for ml in msgs:
            msg = g.randbytes(ml)
            r['states'] += 1
            for n in outs:
                r['evaluations'] += 1
                r['transitions'] += 1
                r['nontrivial'] += 1
                case = {'hash': h, 'message_length': ml, 'output_length': n}
                try:
                    got = H(output_length=n)(msg)
                except Exception as e:
                    r.v(PROPERTY, 'hash-wrapper', 'raises', '%s:%s' % (core.exc_site(e), type(e).__name__), case, 'n bytes', core.exc_text(e))
                    continue
                ref = hashlib.new(h, msg).digest(n) if h.startswith('shake') else ctr_hash(msg, n, h)
                if got != ref:
                    r.v(PROPERTY, 'hash-wrapper', 'differs-from-reference', 'length' if len(got) != n else 'value', case, ref.hex(), got.hex())
                else:
                    r.count('hash-equal-reference')
        # a pickled copy / a deep copy of a wrapper object is the same function
        import pickle as _pickle, copy as _copy
        for n in (7, 33, 100):
            o = H(output_length=n)
            for how, mk in (('pickled', lambda: _pickle.loads(_pickle.dumps(o))), ('deep-copied', lambda: _copy.deepcopy(o))):
                r['evaluations'] += 1
                try:
                    if mk()(b'round trip') != o(b'round trip'):
                        r.v(PROPERTY, 'hash-wrapper', 'differs-from-reference', 'object-roundtrip/' + how, {'hash': h, 'output_length': n}, 'same function', 'differs')
                    else:
                        r.count('hash-object-forms')
                except Exception:
                    r.count('hash-object-not-copyable (not demanded)')
        # outputs of hundreds of blocks: around the point where a block counter needs a second byte, and far beyond
        ds_ = 32 if h.startswith('shake') else hashlib.new(h).digest_size
        for ml in (0, 1, 5, 64, 200):
            msg = g.randbytes(ml)
            for n in (255 * ds_ - 1, 255 * ds_, 255 * ds_ + 1, 256 * ds_, 256 * ds_ + 3, 257 * ds_ + 5, 70000):
                r['evaluations'] += 1
                r['transitions'] += 1
                case = {'hash': h, 'message_length': ml, 'output_length': n}
                try:
                    got = H(output_length=n)(msg)
                except Exception as e:
                    r.v(PROPERTY, 'hash-wrapper', 'raises', '%s:%s' % (core.exc_site(e), type(e).__name__), case, 'n bytes', core.exc_text(e))
                    continue
                ref = hashlib.new(h, msg).digest(n) if h.startswith('shake') else ctr_hash(msg, n, h)
                if got != ref:
                    first = next((i for i in range(min(len(got), len(ref))) if got[i] != ref[i]), min(len(got), len(ref)))
                    r.v(PROPERTY, 'hash-wrapper', 'differs-from-reference', 'long-output/' + ('length' if len(got) != n else 'value'), case,
                        'reference expansion', 'first difference at byte %d of %d' % (first, n))
                else:
                    r.count('hash-long-output-equal-reference')
        for alias in (h.upper(), h):
            try:
                if get_hash_implementation(alias)(output_length=7)(b'abc') != (hashlib.new(h, b'abc').digest(7) if h.startswith('shake') else ctr_hash(b'abc', 7, h)):
                    r.v(PROPERTY, 'hash-wrapper', 'alias', alias, {'alias': alias}, 'same function', 'differs')
            except ValueError:
                r.count('upper-case-alias-refused')   # the wrapper may refuse a spelling; it must not answer wrongly
        if not h.startswith('shake'):
            d = H()(b'abc')
            if d != hashlib.new(h, b'abc').digest() and d != ctr_hash(b'abc', hashlib.new(h).digest_size, h):
                r.v(PROPERTY, 'hash-wrapper', 'default-length', h, {'hash': h}, 'digest-size output', d.hex())
        r.outcome('hash-ok/' + h)
        r.sample({'prim': 'hash wrapper', 'hash': h, 'message_lengths': [msgs[0], msgs[-1]], 'output_lengths': [outs[0], outs[-1]]})
    elif kind == 'tls':
        PRF = get_prf_implementation('HmacPRF')
        r['evaluations'] += 2
        r['states'] += 1
        r['transitions'] += 1
        r['nontrivial'] += 2
        if p_hash(TLS_SECRET, TLS_LABEL + TLS_SEED, 100, 'sha256') != TLS_OUT:
            r.v(PROPERTY, 'harness', 'reference-broken', 'p_hash', {'vector': 'TLS1.2 P_SHA256'}, TLS_OUT.hex(), 'reference differs')
        got = PRF(output_length=100, hash_func_name='sha256')(TLS_SECRET, TLS_LABEL + TLS_SEED)
        if got != TLS_OUT:
            r.v(PROPERTY, 'HmacPRF', 'differs-from-rfc5246', 'tls-vector', {'vector': 'TLS1.2 P_SHA256'}, TLS_OUT.hex(), got.hex())
        else:
            r.count('tls-vector')
        r.outcome('tls-vector-ok')
        r.sample({'vector': 'TLS 1.2 P_SHA256, secret 9bbe436b..., label "test label", 100 bytes'})
    elif kind == 'distinct':
        PRF = get_prf_implementation('HmacPRF')
        g = det.rng(seed, 'c16-distinct')
        for h, n in (('sha1', 16), ('sha256', 20), ('sha512', 32), ('md5', 16)):
            f = PRF(output_length=n, key_length=16, hash_func_name=h)
            keys = [g.randbytes(16) for _ in range(40)]
            msgs = [g.randbytes(g.randrange(0, 12)) for _ in range(60)] + [b'', b'\x00', b'\x00\x00']
            pairs = list({(k, m) for k in keys for m in set(msgs)})[:2000]
            outs = {}
            for k, m in pairs:
                y = f(k, m)
                r['evaluations'] += 1
                r['transitions'] += 1
                if y in outs and outs[y] != (k, m):
                    r.v(PROPERTY, 'HmacPRF', 'collision', h, {'digest': h, 'pair1': outs[y], 'pair2': (k, m)}, 'distinct outputs', y.hex())
                outs[y] = (k, m)
            r['states'] += len(pairs)
            r['nontrivial'] += len(pairs)
            r.count('distinct-set', len(pairs))
            H = get_hash_implementation(h)(output_length=n)
            seen = {}
            for m in {m for _, m in pairs} | {k for k, _ in pairs}:
                y = H(m)
                r['evaluations'] += 1
                if y in seen and seen[y] != m:
                    r.v(PROPERTY, 'hash-wrapper', 'collision', h, {'hash': h, 'm1': seen[y], 'm2': m}, 'distinct outputs', y.hex())
                seen[y] = m
        r.outcome('distinct-ok')
        r.sample({'distinctness': '2000 distinct (key, message) pairs per digest, key length 16'})
    elif kind == 'histories':
        # call histories on ONE PRF / hash object: every sequence of length <= 4 over {valid call under k1, valid call under k2,
        # call refused for its message length under k1 / k2, call refused for its key length}; every valid call must still equal
        # the reference for ITS key and message, whatever was called (and refused) before
        PRF = get_prf_implementation('HmacPRF')
        g = det.rng(seed, 'c16-hist')
        k1, k2 = g.randbytes(16), g.randbytes(16)
        m1, m2 = g.randbytes(8), g.randbytes(8)
        EV = ['v1', 'v2', 'rm1', 'rm2', 'rk', 'v1b']
        for h in ('sha1', 'sha256'):
            for seq in itertools.chain.from_iterable(itertools.product(EV, repeat=n) for n in (1, 2, 3, 4)):
                f = PRF(output_length=24, key_length=16, message_length=8, hash_func_name=h)
                r['evaluations'] += 1
                r['states'] += 1
                r['nontrivial'] += 1
                r.count('prf-histories')
                for i, ev in enumerate(seq):
                    r['transitions'] += 1
                    case = {'digest': h, 'history': list(seq[:i + 1])}
                    try:
                        if ev in ('v1', 'v2', 'v1b'):
                            k, m = (k1, m1) if ev == 'v1' else (k2, m2) if ev == 'v2' else (k1, m2)
                            got = f(k, m)
                            if got != p_hash(k, m, 24, h):
                                r.v(PROPERTY, 'HmacPRF', 'differs-from-rfc5246', 'depends-on-call-history', case, p_hash(k, m, 24, h).hex(), got.hex())
                        else:
                            k, m = {'rm1': (k1, m1 + b'x'), 'rm2': (k2, m2[:-1]), 'rk': (k2 + b'x', m2)}[ev]
                            try:
                                f(k, m)
                                r.v(PROPERTY, 'HmacPRF', 'contract', 'length-violation-accepted-in-history', case, 'ValueError', 'accepted')
                            except ValueError:
                                pass
                    except Exception as e:
                        r.v(PROPERTY, 'HmacPRF', 'raises', 'in-history:%s' % type(e).__name__, case, 'bytes', core.exc_text(e))
        # the hash wrapper: several objects (digests, output lengths) over the same messages in every order of two
        H = {(hn, n): get_hash_implementation(hn)(output_length=n) for hn in ('sha1', 'sha256', 'md5') for n in (10, 20, 33, 64)}
        msgs = [b'', b'abc', g.randbytes(40)]
        for (a, b) in itertools.permutations(sorted(H), 2):
            for m in msgs:
                for (hn, n) in (a, b, a):
                    r['evaluations'] += 1
                    r['transitions'] += 1
                    got = H[(hn, n)](m)
                    if got != ctr_hash(m, n, hn):
                        r.v(PROPERTY, 'hash-wrapper', 'differs-from-reference', 'depends-on-call-history', {'hash': hn, 'output_length': n, 'after': [list(a), list(b)], 'history': True},
                            ctr_hash(m, n, hn).hex(), got.hex())
        r.outcome('histories-ok')
        r.sample({'histories': 'all call sequences of length <= 4 over 6 events on one PRF object; all ordered pairs of 12 hash objects'})
    elif kind == 'contracts':
        PRF = get_prf_implementation('HmacPRF')

        def must_raise(label, f, case):
            r['evaluations'] += 1
            r['states'] += 1
            r['transitions'] += 1
            try:
                f()
                r.v(PROPERTY, 'HmacPRF', 'contract', label + '-accepted', case, 'ValueError', 'accepted')
            except ValueError:
                r.count('contract-refused')
            except Exception as e:
                r.v(PROPERTY, 'HmacPRF', 'contract', label + '-wrong-exception', case, 'ValueError', core.exc_text(e))
        for kl in (0, 1, 16, 32):
            f = PRF(output_length=20, key_length=kl)
            for ak in (kl - 1, kl + 1, kl + 16):
                if ak >= 0:
                    must_raise('key-length', lambda: f(bytes(ak), b'm'), {'declared_key': kl, 'actual': ak})
            if f(bytes(kl), b'm') != p_hash(bytes(kl), b'm', 20, 'sha1'):
                r.v(PROPERTY, 'HmacPRF', 'differs-from-rfc5246', 'declared-key', {'key_length': kl}, 'reference', 'differs')
        for ml in (0, 1, 8, 32):
            f = PRF(output_length=20, message_length=ml)
            for am in (ml - 1, ml + 1, ml + 8):
                if am >= 0:
                    must_raise('message-length', lambda: f(b'k' * 16, bytes(am)), {'declared_message': ml, 'actual': am})
            if f(b'k' * 16, bytes(ml)) != p_hash(b'k' * 16, bytes(ml), 20, 'sha1'):
                r.v(PROPERTY, 'HmacPRF', 'differs-from-rfc5246', 'declared-message', {'message_length': ml}, 'reference', 'differs')
        # both declared, every digest: each contract is enforced on its own
        for h in PRF_DIGESTS:
            for kl, ml in ((16, 8), (33, 24), (1, 1)):
                f0 = PRF(output_length=24, key_length=kl, message_length=ml, hash_func_name=h)
                import pickle as _pickle, copy as _copy
                # the object itself, a pickled copy, a deep copy and a shallow copy: the same function with the same contract,
                # called with positional and with keyword arguments
                forms = {'object': f0}
                for nm, mk in (('pickled', lambda: _pickle.loads(_pickle.dumps(f0))), ('pickled-protocol-2', lambda: _pickle.loads(_pickle.dumps(f0, 2))),
                               ('deep-copied', lambda: _copy.deepcopy(f0)), ('copied', lambda: _copy.copy(f0))):
                    try:
                        forms[nm] = mk()
                    except Exception:
                        r.count('prf-object-not-copyable (not demanded)')     # that an object can be pickled at all is not part of the property
                for nm, f in forms.items():
                    for ak, am in ((kl, ml + 1), (kl, ml - 1), (kl + 1, ml), (kl - 1, ml), (kl + 1, ml + 1)):
                        must_raise('both-declared' + ('' if nm == 'object' else '/' + nm), lambda: f(bytes(ak), bytes(am)), {'digest': h, 'declared': [kl, ml], 'actual': [ak, am], 'form': nm})
                        must_raise('both-declared/keyword-call' + ('' if nm == 'object' else '/' + nm), lambda: f(key=bytes(ak), message=bytes(am)), {'digest': h, 'declared': [kl, ml], 'actual': [ak, am], 'form': nm})
                    want = p_hash(b'K' * kl, b'M' * ml, 24, h)
                    if f(b'K' * kl, b'M' * ml) != want or f(key=b'K' * kl, message=b'M' * ml) != want:
                        r.v(PROPERTY, 'HmacPRF', 'differs-from-rfc5246', 'both-declared' + ('' if nm == 'object' else '/' + nm), {'digest': h, 'declared': [kl, ml], 'form': nm}, 'reference', 'differs')
                    else:
                        r.count('prf-object-forms')
        # several PRF objects with DIFFERENT declared lengths alive at once, used in every order after all of them exist: each
        # enforces its own contract and computes its own function
        objs = {'A': (PRF(output_length=24, key_length=16, message_length=8), 16, 8, 24, 'sha1'),
                'B': (PRF(output_length=40, key_length=33, message_length=24, hash_func_name='sha256'), 33, 24, 40, 'sha256'),
                'C': (PRF(output_length=16), None, None, 16, 'sha1'),
                'D': (PRF(output_length=20, key_length=16), 16, None, 20, 'sha1')}
        for order in itertools.permutations(objs):
            for nm in order:
                f, kl, ml, n, h = objs[nm]
                for ak, am in ((16, 8), (33, 24), (16, 24), (5, 3)):
                    ok = (kl is None or ak == kl) and (ml is None or am == ml)
                    c_ = {'objects_alive': sorted(objs), 'used': nm, 'order': list(order), 'key': ak, 'message': am}
                    if ok:
                        r['evaluations'] += 1
                        try:
                            if f(b'K' * ak, b'M' * am) != p_hash(b'K' * ak, b'M' * am, n, h):
                                r.v(PROPERTY, 'HmacPRF', 'differs-from-rfc5246', 'objects-alive-at-once', c_, 'reference', 'differs')
                            else:
                                r.count('prf-objects-alive-at-once')
                        except Exception as e:
                            r.v(PROPERTY, 'HmacPRF', 'contract', 'own-valid-input-refused-while-other-objects-exist', c_, 'accepted', core.exc_text(e))
                    else:
                        must_raise('objects-alive-at-once', lambda: f(b'K' * ak, b'M' * am), c_)
        for name in ('nope', 'sha-1', 'SHA1x', ''):
            must_raise('unknown-digest-prf', lambda: PRF(output_length=8, hash_func_name=name)(b'k', b'm'), {'digest': name})
            must_raise('unknown-digest-hash', lambda: get_hash_implementation(name)(output_length=8)(b'm'), {'hash': name})
        must_raise('unknown-prf', lambda: get_prf_implementation('nope'), {'prf': 'nope'})
        for h in PRF_DIGESTS:
            d = PRF(hash_func_name=h)(b'k', b'm')
            r['evaluations'] += 1
            if d != p_hash(b'k', b'm', hashlib.new(h).digest_size, h):
                r.v(PROPERTY, 'HmacPRF', 'default-length', h, {'digest': h}, 'digest-size output equal to P_hash', d.hex())
        for alias in ('HmacPRF', 'hmac-prf', 'hmac_prf', 'HMACPRF'):
            if get_prf_implementation(alias) is not PRF:
                r.v(PROPERTY, 'prf-lookup', 'alias', alias, {'alias': alias}, 'same class', 'different')
        r.outcome('contracts-ok')
        r.sample({'contracts': 'declared key/message length +-1, unknown digests'})
    det.restore()
    return r


def replay(case, seed):
    if 'digest' in case and 'key_length' in case and 'output_length' in case:
        return [v for v in run_unit({'kind': 'prf', 'h': case['digest'], 'keys': [case['key_length']]}, 'thorough', seed)['violations']]
    if 'hash' in case and 'message_length' in case:
        return run_unit({'kind': 'hash', 'h': case['hash']}, 'thorough', seed)['violations']
    if 'history' in case:
        return run_unit({'kind': 'histories'}, 'quick', seed)['violations']
    if 'vector' in case:
        return run_unit({'kind': 'tls'}, 'quick', seed)['violations']
    if 'pair1' in case or 'm1' in case:
        return run_unit({'kind': 'distinct'}, 'quick', seed)['violations']
    vs = run_unit({'kind': 'contracts'}, 'quick', seed)['violations']
    for h in HASH_DIGESTS:
        vs += run_unit({'kind': 'hash', 'h': h}, 'quick', seed)['violations']
    return vs

# a subset of the units is executed again in other environments (child interpreters): see core.run_variants
ENV_VARIANTS = [{'name': 'python-O', 'flags': ['-O']}]

def variant_units(tier, seed, name):
    pred = lambda uid, p: p.get('kind') in ('contracts', 'histories')
    return [u for u in units('quick', seed) if pred(u[0], u[1])]

