"""C06 - index layout does not encode the order in which the database was supplied (engine E1)."""
import itertools, math
from mc import core, det, domains, sse

PROPERTY = 'C06'
ENGINE = 'E1 bounded-exhaustive enumeration: all keyword-order permutations of small databases (label tables); all block-count profiles in a window x two setups (array placement)'
LEVEL = 'model_checking'
DIRECTED_ADDITIONS = 'three workers forked from a process that has built an index, ten setups per deep case (no block at one slot in all), DP17 in-bucket order, copies of one scheme object, 5400-posting label tables in three keyword orders, empty posting lists'      # members added during the seeded-change campaign (DESIGN 7); counted under their own vacuity counters

LABEL_SCHEMES = ['CJJ14.PiBas', 'CJJ14.PiPack', 'CJJ14.PiPtr', 'CJJ14.Pi2Lev', 'CT14.Pi', 'ANSS16.Scheme3']
ARRAY_SCHEMES = ['CJJ14.PiPtr', 'CJJ14.Pi2Lev', 'CGKO06.SSE1', 'DP17.Pi']


def describe(tier):
    d = _describe(tier)
    d['rule'] = d['rule'] + ' Directed additions: ' + DIRECTED_ADDITIONS + '.'
    return d


def _describe(tier):
    n = 7 if tier == 'quick' else 9
    return {
        'rule': 'part A (PiBas, PiPack, PiPtr, Pi2Lev, CT14, ANSS16): case = (scheme, configuration point, partition of N<=%d with <= 4 '
                'keywords, permutation of the keyword order) - ALL permutations (<= 24) under ONE fixed key; oracle: the key sequence of every '
                'label-addressed table of the unpickled index is sorted, the sequences of the permuted and the unpermuted setup agree after '
                'projecting both to their common labels, and the common labels include every real entry. part B (PiPtr, Pi2Lev, SSE1, DP17): '
                'case = (scheme, configuration point, profile with 12..24 array-resident blocks); two setups (same key where placement is '
                'random, fresh key for SSE-1 where it is PRP-derived); a recording list substituted for the index\'s list members yields, per '
                'keyword, the slots Search reads (DP17: level, bucket and the in-bucket positions that decrypt); oracle: the placement of the '
                'two setups differs; for every 4th profile (thorough: every profile) 10 setups, and no single block (keyword, position in the read sequence) may sit at the same slot in all of them. non-trivial = permutation other than the identity / profile with >= 12 blocks.' % n,
        'bounds': 'part A: all partitions of N<=%d into <=4 parts x all permutations; part B: all partitions in the block window (first 40 per point in quick)' % n,
        'assumptions': ['chance coincidence of two random placements of >= 12 blocks <= 1/12! = 2.1e-9 per case (inside the property\'s own 1e-8)',
                        'DP17 part B uses level ratio 1.0 and singleton-heavy databases so that the bucket choice alone has probability < 1e-8 of repeating'],
        'must_be_nonzero': ['permutations', 'sorted-tables', 'large-label-tables', 'array-cases', 'deep-array-cases', 'deep-blocks-compared', 'scheme-copies-compared', 'forked-worker-placements-compared'],
    }


def label_tables(name, obj):
    if name in ('CJJ14.PiBas', 'CJJ14.PiPack'):
        return [('D', obj)]
    if name in ('CJJ14.PiPtr', 'CJJ14.Pi2Lev'):
        return [('D', obj[0])]
    if name == 'CT14.Pi':
        return [('HT%d' % i, ht) for i, ht in enumerate(obj)]
    if name == 'ANSS16.Scheme3':
        return [('HT_S', obj[0])] + [('HT_L%d' % i, ht) for i, ht in enumerate(obj[1])]
    raise KeyError(name)


def real_counts(name, cfg, profile):
    """number of real (deterministically labelled) entries per table"""
    B, b = cfg.get('param_B'), cfg.get('param_b')
    if name == 'CJJ14.PiBas':
        return {'D': sum(profile)}
    if name == 'CJJ14.PiPack':
        return {'D': sum(math.ceil(n / B) for n in profile)}
    if name == 'CJJ14.PiPtr':
        return {'D': sum(math.ceil(math.ceil(n / B) / b) for n in profile)}
    if name == 'CJJ14.Pi2Lev':
        return {'D': len(profile)}
    if name == 'CT14.Pi':
        out = {}
        for n in profile:
            for j in range(n.bit_length()):
                if n >> j & 1:
                    out['HT%d' % j] = out.get('HT%d' % j, 0) + 1
        return out
    if name == 'ANSS16.Scheme3':
        out = {'HT_S': len(profile)}
        for n in profile:
            if n == 0:
                continue              # an empty posting list has no entry in any level table
            p = math.ceil(math.log2(n))
            out['HT_L%d' % p] = out.get('HT_L%d' % p, 0) + 1
        return out


def a_points(name, tier):
    g = sse.grid(name, 'quick')
    keep = [x for x in g if x[0] in ('base', 'default') or x[0][:-1] in ('B', 'b', 'quad')]
    return keep if tier != 'quick' else keep[:5]


def a_profiles(tier):
    n = 7 if tier == 'quick' else 9
    out = []
    for N in range(1, n + 1):
        for p in sorted(domains.partitions(N), key=lambda p: (len(p), p)):
            if 2 <= len(p) <= 4:
                out.append(p)
    # keywords with an EMPTY posting list (refused at setup by some schemes - then there is nothing to compare)
    out += [[0, 1], [1, 0], [0, 2, 1], [2, 0, 1], [0, 0, 3]]
    return out


def blocks_of(name, cfg, prof):
    B = cfg.get('param_B')
    if name == 'CJJ14.PiPtr':
        return sum(math.ceil(n / B) for n in prof)
    if name == 'CJJ14.Pi2Lev':
        return sse.pi2lev_alen(cfg, prof) - 1
    if name == 'CGKO06.SSE1':
        return sum(prof)
    if name == 'DP17.Pi':
        return len(prof)
    return 0


def b_points(name, tier):
    if name == 'DP17.Pi':
        pts = [('ratio1', sse.base_cfg(name, param_actual_storage_level_ratio=1.0)),
               ('ratio1-L2', sse.base_cfg(name, param_actual_storage_level_ratio=1.0, param_L=2))]
    elif name == 'CGKO06.SSE1':
        pts = [('base', sse.base_cfg(name, param_dictionary_size=32)), ('s256', sse.base_cfg(name, param_s=256, param_dictionary_size=32))]
    else:
        g = sse.grid(name, 'quick')
        pts = [x for x in g if x[0] in ('base', 'default') or x[0][:-1] in ('B', 'quad')]
    return pts


def b_profiles(name, cfg, tier):
    out = []
    if name == 'DP17.Pi':
        for k in range(16, 25):
            out.append([1] * k)
            out.append([2] + [1] * (k - 1))
        return out
    lo_n, hi_n = 12, (30 if tier == 'quick' else 40)
    cap = 40 if tier == 'quick' else 400
    for N in range(lo_n, hi_n + 1):
        for p in sorted(domains.partitions(N), key=lambda p: (len(p), p)):
            if len(p) > 24:
                continue
            if not sse.valid_profile(name, cfg, p):
                continue
            if 12 <= blocks_of(name, cfg, p) <= 24:
                out.append(p)
                if len(out) >= cap:
                    return out
    return out


LARGE_A = {'quick': [[90] * 60], 'thorough': [[90] * 60, [1] * 5000, [700] * 10]}


def units(tier, seed):
    us = []
    for name in LABEL_SCHEMES:
        for label, cfg in a_points(name, tier):
            us.append(('A/%s/%s' % (name, label), {'part': 'A', 'scheme': name, 'label': label, 'cfg': cfg}))
        us.append(('A-large/%s' % name, {'part': 'A-large', 'scheme': name, 'label': 'base', 'cfg': sse.base_cfg(name)}))
    for name in ARRAY_SCHEMES:
        for label, cfg in b_points(name, tier):
            n = len(b_profiles(name, cfg, tier))
            for k in range(0, n, 10):
                us.append(('B/%s/%s/%d' % (name, label, k), {'part': 'B', 'scheme': name, 'label': label, 'cfg': cfg, 'lo': k, 'hi': k + 10}))
        label, cfg = b_points(name, tier)[0]
        us.append(('B-forked/%s' % name, {'part': 'B-forked', 'scheme': name, 'label': label, 'cfg': cfg}))
    return us


def run_forked(r, seed, name, label, cfg, prof):
    """setup of one database (same key where placement is random, fresh key where it is key-derived) by three workers forked from
    a process that has already built an index: the workers' placements differ pairwise and from the parent's"""
    case = {'part': 'B', 'scheme': name, 'label': label, 'cfg': cfg, 'profile': prof, 'forked_workers': 3}
    core.note_case(case)
    db, cfg1, g = sse.build_db(seed, name, label, cfg, prof, 6, 'disjoint')
    det.restore()
    L = sse.loader(name)
    r['evaluations'] += 1
    r['states'] += 1
    r['nontrivial'] += 1
    try:
        scheme = L.SSEScheme(cfg1)
        key = scheme.KeyGen()
        first = placement(name, scheme, key, scheme.EDBSetup(key, db), db)
    except Exception as e:
        r.v(PROPERTY, name, 'array-case-raises', '%s:%s' % (core.exc_site(e), type(e).__name__), case, 'setup and searches succeed', core.exc_text(e))
        return

    def work(i):
        k = scheme.KeyGen() if name == 'CGKO06.SSE1' else key
        return placement(name, scheme, k, scheme.EDBSetup(k, db), db)
    res = det.forked(3, work)
    r['transitions'] += 4 * (2 + 2 * len(db))
    if any(t != 'ok' for t, _ in res):
        r.v(PROPERTY, name, 'array-case-raises', 'in-forked-worker', case, 'setup works in a forked worker', repr([x for t, x in res if t != 'ok'][:1]))
        return
    ps = [first] + [x for _, x in res]
    nslots = sum(len(v[0]) if name == 'DP17.Pi' else len(v) for v in first.values())
    if nslots < 12:
        r.v(PROPERTY, name, 'too-few-slots-read', 'harness', case, '>= 12 array slots read', nslots)
        return
    r.count('forked-worker-placements-compared', len(ps))
    for i in range(len(ps)):
        for j in range(i + 1, len(ps)):
            if ps[i] == ps[j]:
                r.v(PROPERTY, name, 'placement-repeats', 'across-forked-workers', case, 'block placement differs between setups in different worker processes',
                    'setups %d and %d (0 = parent): identical slots for every keyword (%d slots)' % (i, j, nslots))
                r.outcome('placement-repeats')
                return
    r.outcome('placement-differs')


def run_a_case(r, seed, name, label, cfg, prof, perms=None):
    case = {'part': 'A', 'scheme': name, 'label': label, 'cfg': cfg, 'profile': prof}
    if perms:
        case['large'] = True
        r.count('large-label-tables')
    core.note_case(case)
    db, cfg1, g = sse.build_db(seed, name, label, cfg, prof, 6, 'disjoint')
    det.seed_case(seed, PROPERTY, 'A', name, label, tuple(prof))
    L = sse.loader(name)
    try:
        scheme = L.SSEScheme(cfg1)
        key = scheme.KeyGen()
    except Exception:
        r.count('setup-raises (C01)'); return
    kws = list(db)
    real = real_counts(name, cfg, prof)
    ref = None
    nk = len(kws)
    # thousands of entries in dozens of lists: three keyword orders (as supplied, reversed, rotated by a third) instead of all
    for perm in (itertools.permutations(range(nk)) if not perms else
                 [tuple(range(nk)), tuple(reversed(range(nk))), tuple(list(range(nk // 3, nk)) + list(range(nk // 3)))]):
        pdb = {kws[i]: db[kws[i]] for i in perm}
        c = dict(case, permutation=(list(perm) if not perms else 'order %d of 3' % [0, nk - 1, nk // 3].index(perm[0])))
        r['evaluations'] += 1
        r['states'] += 1
        r.count('permutations')
        if list(perm) != sorted(perm):
            r['nontrivial'] += 1
        try:
            edb = scheme.EDBSetup(key, pdb)
            r['transitions'] += 1
        except Exception:
            r.count('setup-raises (C01)'); continue
        tabs = label_tables(name, sse.unpickle_edb(edb.serialize()))
        seqs = {}
        for tname, t in tabs:
            ks = list(t.keys())
            seqs[tname] = ks
            r.count('sorted-tables')
            if ks != sorted(ks):
                r.v(PROPERTY, name, 'table-not-sorted', tname.rstrip('0123456789'), dict(c, table=tname),
                    'label sequence of %s sorted' % tname, 'unsorted (%d labels)' % len(ks))
                r.outcome('unsorted')
        if ref is None:
            ref = seqs
            continue
        for tname, ks in seqs.items():
            base = ref.get(tname)
            if base is None:
                r.v(PROPERTY, name, 'table-set-differs', tname.rstrip('0123456789'), dict(c, table=tname), 'same tables', 'table missing in reference'); continue
            common = set(ks) & set(base)
            if [k for k in ks if k in common] != [k for k in base if k in common]:
                r.v(PROPERTY, name, 'label-order-depends-on-input-order', tname.rstrip('0123456789'), dict(c, table=tname),
                    'same label sequence as the unpermuted setup', 'differs on the common labels')
                r.outcome('order-differs')
            elif len(common) < real.get(tname, 0):
                r.v(PROPERTY, name, 'labels-depend-on-input-order', tname.rstrip('0123456789'), dict(c, table=tname),
                    '>= %d labels in common with the unpermuted setup' % real.get(tname, 0), '%d common' % len(common))
                r.outcome('labels-differ')
            else:
                r.outcome('same-sequence')


class RecList(list):
    """list that records the integer indices read through it"""

    def __init__(self, it, log, tag=None):
        super().__init__(it)
        self._log, self._tag = log, tag

    def __getitem__(self, i):
        if isinstance(i, int):
            self._log.append(i if self._tag is None else (self._tag, i))
        return super().__getitem__(i)


def placement(name, scheme, key, edb, db):
    """per keyword: the slots Search reads (plus, for DP17, the in-bucket positions that decrypt)"""
    out = {}
    for w in db:
        log = []
        if name in ('CJJ14.PiPtr', 'CJJ14.Pi2Lev', 'CGKO06.SSE1'):
            orig = edb.A
            edb.A = RecList(orig, log)
            try:
                scheme.Search(edb, scheme.TokenGen(key, w))
            finally:
                edb.A = orig
            out[w] = tuple(log)
        else:
            orig = edb.A_dict
            edb.A_dict = {i: RecList(l, log, tag=i) for i, l in orig.items()}
            try:
                tk = scheme.TokenGen(key, w)
                scheme.Search(edb, tk)
            finally:
                edb.A_dict = orig
            pos = []
            cl = scheme.config.param_identifier_cipher_len
            for (lvl, off) in log:
                for j, e in enumerate(sse.split(orig[lvl][off], cl)):
                    try:
                        pt = scheme.config.rnd.Decrypt(tk.etag, e)
                        if pt[-scheme.config.param_lambda:] == b'\x00' * scheme.config.param_lambda:
                            pos.append(j)
                    except ValueError:
                        pass
            out[w] = (tuple(log), tuple(pos))
    return out


DEEP_SETUPS = 10


def run_b_case(r, seed, name, label, cfg, prof, deep=False):
    case = {'part': 'B', 'scheme': name, 'label': label, 'cfg': cfg, 'profile': prof}
    if deep:
        case['deep'] = True
    core.note_case(case)
    db, cfg1, g = sse.build_db(seed, name, label, cfg, prof, 6, 'disjoint')
    det.seed_case(seed, PROPERTY, 'B', name, label, tuple(prof))
    L = sse.loader(name)
    r['evaluations'] += 1
    r['states'] += 1
    r['nontrivial'] += 1
    r.count('array-cases')
    try:
        scheme = L.SSEScheme(cfg1)
        key1 = scheme.KeyGen()
        key2 = scheme.KeyGen() if name == 'CGKO06.SSE1' else key1
        edb1 = scheme.EDBSetup(key1, db)
        edb2 = scheme.EDBSetup(key2, db)
        p1 = placement(name, scheme, key1, edb1, db)
        p2 = placement(name, scheme, key2, edb2, db)
        r['transitions'] += 4 + 4 * len(db)
    except Exception as e:
        r.v(PROPERTY, name, 'array-case-raises', '%s:%s' % (core.exc_site(e), type(e).__name__), case, 'two setups and searches succeed', core.exc_text(e))
        return
    nslots = sum(len(v[0]) if name == 'DP17.Pi' else len(v) for v in p1.values())
    if nslots < 12:
        r.v(PROPERTY, name, 'too-few-slots-read', 'harness', case, '>= 12 array slots read', nslots)
        return
    if p1 == p2:
        r.v(PROPERTY, name, 'placement-repeats', 'same-key' if key1 is key2 else 'fresh-key', case,
            'block placement differs between two setups', 'identical slots for every keyword (%d slots)' % nslots)
        r.outcome('placement-repeats')
    else:
        r.outcome('placement-differs')
    if deep and name != 'CGKO06.SSE1':
        # two COPIES of one scheme object (deep copy; pickle) setting up the same database under the same key: copies must not replay
        # each other's placement (that a scheme object can be copied at all is not demanded)
        import copy as _copy, pickle as _pickle
        try:
            blank = L.SSEScheme(_copy.deepcopy(cfg1))
            pairs_ = [('deep-copies', _copy.deepcopy(blank), _copy.deepcopy(blank)), ('pickled-copies', _pickle.loads(_pickle.dumps(blank)), _pickle.loads(_pickle.dumps(blank)))]
        except Exception:
            pairs_ = []
            r.count('scheme-object-not-copyable (not demanded)')
        for how, sa, sb in pairs_:
            try:
                pa = placement(name, sa, key1, sa.EDBSetup(key1, db), db)
                pb = placement(name, sb, key1, sb.EDBSetup(key1, db), db)
            except Exception as e:
                r.v(PROPERTY, name, 'array-case-raises', 'copies:%s:%s' % (core.exc_site(e), type(e).__name__), case, 'setups by copied scheme objects succeed', core.exc_text(e))
                continue
            r.count('scheme-copies-compared')
            if pa == pb:
                r.v(PROPERTY, name, 'placement-repeats', 'two-' + how + '-of-one-scheme-object', case, 'block placement differs between the two copies', 'identical slots for every keyword')
    if deep:
        # no single block may sit at the same position in every one of DEEP_SETUPS setups: each block is placed uniformly among >= 12
        # candidate positions, so a block repeats its position 9 more times with probability <= 12^-9 = 1.9e-10 (<= 24 blocks per case:
        # 4.7e-9, inside the property's 1e-8)
        ps = [p1, p2]
        cand = {}
        try:
            for _ in range(DEEP_SETUPS - 2):
                k = scheme.KeyGen() if name == 'CGKO06.SSE1' else key1
                e = scheme.EDBSetup(k, db)
                ps.append(placement(name, scheme, k, e, db))
                r['transitions'] += 2 + 2 * len(db)
            if name == 'DP17.Pi':
                cand = {lvl: len(l) for lvl, l in edb1.A_dict.items()}
        except Exception as e:
            r.v(PROPERTY, name, 'array-case-raises', '%s:%s' % (core.exc_site(e), type(e).__name__), case, 'repeated setups and searches succeed', core.exc_text(e))
            return
        r.count('deep-array-cases')
        if name == 'DP17.Pi':
            # inside a bucket: two one-posting keywords that landed in the same bucket of level 0 (2 slots, so the bucket is exactly
            # full) must not always sit in the order the database supplied them (a coin per pair and setup: 40 pairs all in input
            # order has probability 2^-40)
            order = {w: i for i, w in enumerate(db)}
            pairs = inorder = 0
            for q in ps:
                by_bucket = {}
                for w in db:
                    lg, pos = q[w]
                    if len(db[w]) == 1 and len(lg) >= 1 and len(pos) == 1:
                        by_bucket.setdefault(lg[0], []).append((pos[0], order[w]))
                for members in by_bucket.values():
                    if len(members) == 2:
                        pairs += 1
                        (p_a, o_a), (p_b, o_b) = members
                        if (p_a < p_b) == (o_a < o_b):
                            inorder += 1
            r.count('dp17-full-bucket-pairs', pairs)
            if pairs >= 40 and inorder in (0, pairs):
                r.v(PROPERTY, name, 'in-bucket-order-follows-input', 'full-bucket', dict(case, pairs=pairs),
                    'entries of an exactly full bucket in random order', 'all %d co-located pairs in %s order' % (pairs, 'input' if inorder else 'reverse input'))
        for w in db:
            seqs = [(q[w][0] if name == 'DP17.Pi' else q[w]) for q in ps]
            if len({len(x) for x in seqs}) != 1:
                continue
            for j in range(len(seqs[0])):
                vals = [x[j] for x in seqs]
                if name == 'DP17.Pi' and (len({v[0] for v in vals}) != 1 or cand.get(vals[0][0], 0) < 12):
                    continue                                       # fewer than 12 buckets on that level: coincidence too likely
                r.count('deep-blocks-compared')
                if len(set(vals)) == 1:
                    r.v(PROPERTY, name, 'block-placement-constant', 'same-key' if name != 'CGKO06.SSE1' else 'fresh-key',
                        dict(case, keyword_index=list(db).index(w), block=j),
                        'the block moves between %d setups' % DEEP_SETUPS, 'always at %r' % (vals[0],))
                    r.outcome('block-placement-constant')
    # placement must not simply follow input order: the concatenated slot sequence is not sorted ascending in both setups
    if name != 'DP17.Pi':
        s1 = [x for w in db for x in p1[w]]
        s2 = [x for w in db for x in p2[w]]
        if name != 'CJJ14.Pi2Lev' and s1 == sorted(s1) and s2 == sorted(s2):
            r.v(PROPERTY, name, 'placement-in-input-order', 'sequential', case, 'random placement', 'slots ascend in input order in both setups')


def run_unit(p, tier, seed):
    r = core.Result()
    name, label, cfg = p['scheme'], p['label'], p['cfg']
    if p['part'] == 'A':
        for prof in a_profiles(tier):
            if sse.valid_profile(name, cfg, prof):
                run_a_case(r, seed, name, label, cfg, prof)
        r.sample({'part': 'A', 'scheme': name, 'cfg_point': label, 'profiles': 'all partitions with 2..4 keywords', 'permutations': 'all'})
    elif p['part'] == 'B-forked':
        profs = b_profiles(name, cfg, tier)
        run_forked(r, seed, name, label, cfg, profs[len(profs) // 2])
    elif p['part'] == 'A-large':
        for prof in LARGE_A[tier]:
            if sse.valid_profile(name, cfg, prof):
                run_a_case(r, seed, name, label, cfg, prof, perms=True)
    else:
        for idx, prof in enumerate(b_profiles(name, cfg, tier)[p['lo']:p['hi']]):
            run_b_case(r, seed, name, label, cfg, prof, deep=(tier != 'quick' or idx % 4 == 0))
            r.sample({'part': 'B', 'scheme': name, 'cfg_point': label, 'profile': prof, 'blocks': blocks_of(name, cfg, prof)}, limit=1)
    det.restore()
    return r


def replay(case, seed):
    r = core.Result()
    if case.get('forked_workers'):
        run_forked(r, seed, case['scheme'], case['label'], case['cfg'], case['profile'])
    elif case['part'] == 'A':
        run_a_case(r, seed, case['scheme'], case['label'], case['cfg'], case['profile'], perms=bool(case.get('large')))
    else:
        run_b_case(r, seed, case['scheme'], case['label'], case['cfg'], case['profile'], deep=bool(case.get('deep')))
    return r['violations']
