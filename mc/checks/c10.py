"""C10 - the server keeps each service in a forward-only, write-once state machine (engine E2 on E3)."""
import os, pickle, hashlib, itertools
from mc import core, det, vnet, fe, xstate

PROPERTY = 'C10'
ENGINE = 'E2 explicit-state search (BFS to fixpoint + all histories to depth k, no dedup) over the real connection handler on the E3 virtual network, one connection at a time'
LEVEL = 'model_checking'
DIRECTED_ADDITIONS = 'one server process serving 220 (thorough: 800) consecutive connections, again under a 128 open-files limit, malformed / sid-less / unstorable messages, five near-miss foreign sids, a second token under the same correlation value, loopback-TCP replays built from the same message constructor'      # members added during the seeded-change campaign (DESIGN 7); counted under their own vacuity counters

ALPHABET = ['config1', 'config2', 'upload1', 'upload2', 'search', 'search-other', 'reconnect-before-cleanup', 'reconnect-after-cleanup', 'foreign-sid', 'unknown-type',
            'config-malformed', 'upload-malformed', 'search-malformed', 'no-sid', 'config-unstorable']
DEPTH = {'quick': 4, 'thorough': 5}


def describe(tier):
    d = _describe(tier)
    d['rule'] = d['rule'] + ' Directed additions: ' + DIRECTED_ADDITIONS + '.'
    return d


def _describe(tier):
    return {
        'rule': 'state = history of protocol events on ONE service id, replayed on a fresh virtual network + fresh ServicesManager + fresh sid; '
                'alphabet = {config(c1), config(c2), upload(e1), upload(e2), search(t), reconnect before the 1 s cleanup, reconnect after it, a '
                'config message carrying a foreign sid, a message of unknown type, a config message whose content is not a pickle, an index '
                'upload without content, a token of the wrong length, a config message without a sid field, a configuration that cannot be stored as JSON}; c1/c2 are valid PiBas configurations differing in salt, e1/e2 '
                'indexes of two different databases under one key, t a token whose answer differs between them. Reference model = '
                '(state in {0,1,2}, accepted cfg, accepted edb, connection open). (a) BFS to fixpoint over canon = model state + files and hashes '
                'under ~/.sse/<sid> + the active Service object\'s state snapshot and loaded-object flags + registry keys + armed cleanup timers; '
                '(b) every history of length <= %d without deduplication. Oracle per step: init echo reports the model state; a request is '
                'acknowledged iff the model accepts it (a refusal may be a refusal message or a server-side closure); a search is answered only in '
                'state 2 and with Search(accepted edb, t); config.json / edb bytes never change once accepted; a refused request changes nothing. '
                'non-trivial = history containing at least one accepted request.' % DEPTH[tier],
        'bounds': 'alphabet 14; BFS fixpoint; all histories of length <= %d' % DEPTH[tier],
        'assumptions': ['one connection at a time (overlap is C12)', 'transport model: in-memory, per-connection FIFO; validated against loopback TCP by mc/loopback.py',
                        'timer rule: only timers armed with <= 2 s (the cleanup delay) are schedulable events'],
        'must_be_nonzero': ['accepted-config', 'accepted-upload', 'answered-search', 'refused', 'reconnect-before-cleanup', 'bfs-fixpoint', 'dfs-histories', 'tcp-loopback-replays', 'long-run-connections'],
    }


def units(tier, seed):
    us = [('bfs', {'kind': 'bfs'})]
    for a, b in itertools.product(ALPHABET, repeat=2):
        us.append(('dfs/%s/%s' % (a, b), {'kind': 'dfs', 'prefix': [a, b]}))
    us.append(('dfs/short', {'kind': 'dfs-short'}))
    # one server process serving a long run of connections (also executed with a small open-files limit: ENV_VARIANTS)
    us.append(('long', {'kind': 'long', 'rounds': 110 if tier == 'quick' else 400}))
    # conformance of the transport model: explored histories replayed over real loopback TCP (mc/loopback.py)
    if tier == 'quick':
        hs = [['config1', 'upload1', 'search'], ['search', 'reconnect-before-cleanup', 'config2', 'config1'],
              ['config1', 'reconnect-after-cleanup', 'upload2', 'search', 'upload1'], ['foreign-sid', 'unknown-type'],
              ['config1', 'upload1', 'reconnect-before-cleanup', 'search', 'config2'], ['upload1'],
              ['config1', 'upload1', 'search-other', 'search'], ['no-sid', 'config-unstorable', 'config1', 'config-malformed', 'upload-malformed']]
        us.append(('tcp/0', {'kind': 'tcp', 'histories': hs[:3]}))
        us.append(('tcp/1', {'kind': 'tcp', 'histories': hs[3:]}))
    else:
        fast = [e for e in ALPHABET if e != 'reconnect-after-cleanup']
        hs = [list(h) for k in (1, 2, 3) for h in itertools.product(fast, repeat=k)]
        slow = [list(h) for h in itertools.product(ALPHABET, repeat=2) if 'reconnect-after-cleanup' in h] + \
               [['config1', 'reconnect-after-cleanup', x] for x in ALPHABET] + [['config1', 'upload1', 'reconnect-after-cleanup', x] for x in ALPHABET]
        hs += slow
        for k in range(0, len(hs), 12):
            us.append(('tcp/%d' % k, {'kind': 'tcp', 'histories': hs[k:k + 12]}))
    return sorted(us, key=lambda u: not u[0].startswith('tcp'))


def long_history(rounds):
    return ['config1', 'reconnect-before-cleanup', 'upload1'] + ['reconnect-after-cleanup', 'search', 'config2', 'reconnect-before-cleanup', 'search-other', 'upload2'] * rounds


def messages_for(fx, sid, ev):
    """the protocol messages (dicts, before pickling) of one event - used by the virtual step AND by the loopback-TCP replay"""
    def msg(typ, content, sid_=sid, **extra):
        d = {'type': typ, 'sid': sid_, 'content': content}
        d.update(extra)
        if sid_ == '__omit__':
            del d['sid']
        return d
    if ev in ('config1', 'config2'):
        return [msg('config', pickle.dumps(fx.c1 if ev == 'config1' else fx.c2))]
    if ev in ('upload1', 'upload2'):
        return [msg('upload_edb', fx.e1 if ev == 'upload1' else fx.e2)]
    if ev == 'search':
        return [msg('token', fx.tok, token_digest=fx.tok_digest)]
    if ev == 'search-other':
        # another keyword's token under the SAME correlation value: token_digest is an opaque field the server echoes, the
        # answer has to come from the token
        return [msg('token', fx.tok2, token_digest=fx.tok_digest)]
    if ev == 'foreign-sid':
        # foreign service ids, most of them adversarially close to the connection's own: same first 8 characters (what the logs
        # print), the other case, one character more or less, and an unrelated one
        own = sid
        others = ['someone-else', own[:8] + ('Z' if own[8:9] != 'Z' else 'Y') + own[9:], own.swapcase(), own + '0', own[:-1]]
        assert own not in others
        return [msg('config', pickle.dumps(fx.c2), o) for o in others]
    if ev == 'unknown-type':
        return [msg('bogus', b'x')]
    if ev == 'no-sid':                    # a configuration message without any sid field: not addressed to this service
        return [msg('config', pickle.dumps(fx.c2), '__omit__')]
    if ev == 'config-unstorable':         # a configuration that unpickles but cannot be stored as JSON (bytes value)
        return [msg('config', pickle.dumps(dict(fx.c2, extra=b'not json')))]
    if ev == 'config-malformed':          # a configuration message whose content is not a pickle
        return [msg('config', b'this is not a pickle')]
    if ev == 'upload-malformed':          # an index upload without any content
        return [msg('upload_edb', None)]
    if ev == 'search-malformed':          # a token of the wrong length
        return [msg('token', b'xx', token_digest=b'')]
    raise KeyError(ev)


_fx = {}


def fixture(seed):
    if seed not in _fx:
        _fx[seed] = fe.Fixture(seed)
    return _fx[seed]


class Sut:
    pass


class ServerSystem:
    def __init__(self, seed):
        self.fx = fixture(seed)
        self.m = fe.mods()

    def fresh(self):
        s = Sut()
        s.w = fe.World(eager=True)
        s.w.start_server()
        s.sid = fe.new_sid('c10')
        s.w.sids.append(s.sid)
        s.model = {'state': 0, 'cfg': None, 'edb': None, 'open': False}
        s.accepted_files = {}
        s.conn = None
        s.init_problems = self._connect(s, after_cleanup=False)
        return s

    def dispose(self, s):
        s.w.close()

    def events(self, s):
        if s.model['open']:
            return ALPHABET
        return ['reconnect-before-cleanup', 'reconnect-after-cleanup']

    # -- helpers
    def _connect(self, s, after_cleanup):
        probs = []
        if s.conn is not None and not s.conn.closed:
            s.conn.close()
        fe.settle(s.w.loop, timers=after_cleanup)
        s.conn = fe.RawConn(s.w, s.sid).open()
        fe.settle(s.w.loop, timers=False)
        msgs = [m for m in s.conn.new_messages() if m.get('type') != 'control']
        if not msgs or msgs[0].get('type') != 'init':
            probs.append(('no-init-echo', 'reconnect', 'init echo with state %d' % s.model['state'], 'closed=%s msgs=%r' % (s.conn.closed, [m.get('type') for m in msgs])))
            s.model['open'] = not s.conn.closed
            s.obs = ('no-init',)
            return probs
        echo = pickle.loads(msgs[0]['content'])
        if not echo.get('ok') or echo.get('state') != s.model['state']:
            probs.append(('init-echo-state', 'reconnect', {'ok': True, 'state': s.model['state']}, echo))
        s.model['open'] = not s.conn.closed
        s.obs = ('init', echo.get('state'))
        return probs

    def _disk(self, s):
        return s.w.server_files(s.sid)

    def step(self, s, ev):
        fx = self.fx
        probs = list(getattr(s, 'init_problems', []))
        s.init_problems = []
        md = s.model
        if ev.startswith('reconnect'):
            probs += self._connect(s, after_cleanup=ev.endswith('after-cleanup'))
            probs += self._disk_invariant(s, ev)
            return probs
        before = self._disk(s)
        which = {'config1': 1, 'config2': 2, 'upload1': 1, 'upload2': 2}.get(ev)
        accept = {'config1': md['state'] == 0, 'config2': md['state'] == 0, 'upload1': md['state'] == 1, 'upload2': md['state'] == 1,
                  'search': md['state'] == 2, 'search-other': md['state'] == 2}.get(ev, False)
        reply_type = {'config1': 'config', 'config2': 'config', 'upload1': 'upload_edb', 'upload2': 'upload_edb', 'search': 'result', 'search-other': 'result',
                      'foreign-sid': 'config', 'unknown-type': None, 'no-sid': 'config', 'config-unstorable': 'config', 'config-malformed': 'config',
                      'upload-malformed': 'upload_edb', 'search-malformed': 'result'}[ev]
        for d in messages_for(fx, s.sid, ev):
            s.conn.send_raw(d)
        fe.settle(s.w.loop, timers=False)
        msgs = [m for m in s.conn.new_messages() if m.get('type') != 'control']
        if not msgs and not s.conn.closed:
            # a newcomer's requests wait for the predecessor's 1 s cleanup (it sleeps while holding the registry lock):
            # let virtual time pass before concluding that the request was ignored
            fe.settle(s.w.loop, timers=True)
            msgs = [m for m in s.conn.new_messages() if m.get('type') != 'control']
        closed = s.conn.closed
        acked, refused_msg, result = False, False, None
        for m in msgs:
            if m.get('type') != reply_type:
                probs.append(('unexpected-message', ev, 'reply of type %s' % reply_type, m.get('type')))
                continue
            if reply_type == 'result':
                try:
                    c = pickle.loads(m['content'])
                except Exception:
                    c = None
                if isinstance(c, dict) and c.get('ok') is False:
                    refused_msg = True
                else:
                    acked = True
                    try:
                        result = fx.decode_result(m['content'])
                    except Exception as e:
                        result = 'undecodable: %s' % core.exc_text(e)
                    if m.get('token_digest') != fx.tok_digest:
                        probs.append(('wrong-token-digest', ev, 'digest of the token', m.get('token_digest')))
            else:
                c = pickle.loads(m['content'])
                if c.get('ok'):
                    acked = True
                else:
                    refused_msg = True
        if accept:
            if not acked:
                probs.append(('valid-request-not-acknowledged', ev, 'acknowledgement', 'refused=%s closed=%s' % (refused_msg, closed)))
            else:
                if ev.startswith('config'):
                    md['state'], md['cfg'] = 1, which
                elif ev.startswith('upload'):
                    md['state'], md['edb'] = 2, which
                else:
                    want = fx.answer(md['edb'], fx.kw2 if ev == 'search-other' else None)
                    if result != want:
                        probs.append(('search-not-from-accepted-index', ev, want, result))
        else:
            if acked:
                probs.append(('invalid-request-acknowledged', '%s/state%d' % (ev, md['state']), 'refusal or closure', 'acknowledged' if result is None else result))
                # follow the implementation so that later steps are judged consistently
            after = self._disk(s)
            if md['state'] < 2:
                # before an index has been accepted the edb file is not part of the observable state: an upload that fails while
                # being stored may leave a (partial) file behind that the next accepted upload replaces
                before = {k: v for k, v in before.items() if k != 'edb'}
                after = {k: v for k, v in after.items() if k != 'edb'}
            if md['state'] == 0:
                # likewise a configuration that fails while being stored may leave a partial config.json behind; what must not
                # appear is a state file, because that is what makes the service exist
                before = {k: v for k, v in before.items() if k == 'service_meta'}
                after = {k: v for k, v in after.items() if k == 'service_meta'}
            if after != before and not acked:
                probs.append(('refused-request-changed-files', '%s/state%d' % (ev, md['state']), sorted(before), sorted(after)))
        md['open'] = not closed
        s.obs = ('result', result) if (acked and reply_type == 'result') else ('ack',) if acked else ('refused-or-closed',) if (refused_msg or closed) else ('nothing',)
        probs += self._disk_invariant(s, ev)
        return probs

    def _disk_invariant(self, s, ev):
        probs = []
        fx = self.fx
        md = s.model
        files = self._disk(s)
        if md['cfg']:
            import json
            want = fx.c1 if md['cfg'] == 1 else fx.c2
            try:
                got = json.loads(files.get('config.json', b'null'))
            except Exception:
                got = 'unparsable'
            if got != want:
                probs.append(('accepted-config-replaced-or-lost', ev, 'config %d on disk' % md['cfg'], got if not isinstance(got, dict) else got.get('salt')))
        if md['edb']:
            want = fx.e1 if md['edb'] == 1 else fx.e2
            if files.get('edb') != want:
                probs.append(('accepted-index-replaced-or-lost', ev, 'index %d on disk' % md['edb'], 'differs' if 'edb' in files else 'missing'))
        if md['state'] == 0 and 'service_meta' in files:
            probs.append(('state-file-without-accepted-config', ev, 'no state file before a configuration is accepted', sorted(files)))
        return probs

    def canon(self, s):
        md = s.model
        files = self._disk(s)
        fh = tuple((k, hashlib.sha256(v).hexdigest()[:12]) for k, v in sorted(files.items()))
        mgr = s.w.manager()
        reg = tuple(sorted('sid' if k == s.sid else 'other' for k in mgr._service_dict)) if hasattr(mgr, '_service_dict') else ()
        svc = mgr._service_dict.get(s.sid) if hasattr(mgr, '_service_dict') else None
        snap = None
        if svc is not None:
            snap = (svc.service_meta.get('state'), svc.config is not None, svc.sse_scheme is not None, svc.edb is not None,
                    svc.sse_module_loader is not None)
        # armed cleanup timers: 0, 1 or "several" - a cleanup that is no longer the registry entry's own has no effect when it
        # fires, so their exact number is not part of the canonical state (the undeduplicated DFS does not rely on this)
        timers = min(2, sum(1 for h in s.w.loop._live_timers() if s.w.loop._delays.get(id(h), 0) <= s.w.loop.SHORT))
        lock = getattr(getattr(mgr, '_access_dict_lock', None), 'locked', lambda: None)()
        return (md['state'], md['cfg'], md['edb'], md['open'], fh, reg, snap, timers, lock)


def run_long(r, system, hist):
    """one server process, one service, a long run of connections; stops at the first problem"""
    import errno
    s = system.fresh()
    fds0 = len(os.listdir('/proc/self/fd'))
    try:
        for i, ev in enumerate(hist):
            case = {'history': hist[:i], 'event': ev, 'engine': 'long'}
            if ev not in system.events(s):
                r.v(PROPERTY, 'harness', 'long-run-event-not-enabled', ev, case, 'enabled', 'not enabled')
                return
            try:
                probs = system.step(s, ev)
            except OSError as e:
                if e.errno not in (errno.EMFILE, errno.ENFILE):
                    raise
                # the process (server and harness share it) has run out of file descriptors
                fds = '/proc/self/fd'
                try:
                    held = len(os.listdir(fds))
                except OSError:
                    held = 'all'
                r.v(PROPERTY, 'server', 'descriptors-exhausted', 'long-run', {'history_length': i, 'rounds': (len(hist) - 3) // 6, 'engine': 'long'},
                    'a server process keeps serving consecutive connections within the open-files limit (%d descriptors open at the start)' % fds0,
                    '%s descriptors open after %d events: %s' % (held, i, e))
                return
            r['transitions'] += 1
            for prob in probs:
                r.v(PROPERTY, 'server', prob[0], prob[1], case, prob[2], prob[3])
                r.outcome(prob[0])
            if probs:
                return
    finally:
        try:
            system.dispose(s)
        except OSError:
            pass


def run_unit(p, tier, seed):
    r = core.Result()
    system = ServerSystem(seed)

    def on_problem(hist, ev, prob):
        r.v(PROPERTY, 'server', prob[0], prob[1], {'history': list(hist), 'event': ev, 'engine': p['kind']}, prob[2], prob[3])
        r.outcome(prob[0])

    if p['kind'] == 'tcp':
        from mc import loopback
        n, bad = loopback.replay_c10_histories(seed, p['histories'])
        r.count('tcp-loopback-replays', n)
        r['evaluations'] += n
        r['traces'] += n
        for b in bad:
            r.v(PROPERTY, 'harness', 'virtual-vs-tcp-disagreement', 'c10-history', {'history': b['history'], 'engine': 'tcp'}, b['virtual'], b['tcp'])
        r.outcome('tcp-agrees' if not bad else 'tcp-disagrees')
        r.sample({'tcp_loopback_replay': p['histories'][0]}, limit=1)
        det.restore()
        return r
    if p['kind'] == 'long':
        hist = long_history(p['rounds'])
        run_long(r, system, hist)
        r['evaluations'] += 1
        r['traces'] += 1
        r['nontrivial'] += 1
        r.count('long-run-connections', sum(1 for e in hist if e.startswith('reconnect')))
        r.outcome('long-run-complete' if not r['violations'] else 'long-run-stopped')
        r.sample({'long_run': '%d events, %d connections on one server process' % (len(hist), sum(1 for e in hist if e.startswith('reconnect')))}, limit=1)
        det.restore()
        return r
    if p['kind'] == 'bfs':
        st, seen = xstate.bfs(system, on_problem, max_states=5000)
        r['states'] += st.states
        r['transitions'] += st.transitions
        r['evaluations'] += st.transitions
        r['traces'] += st.rebuilds
        r['nontrivial'] += sum(1 for c in seen if c[0] > 0)
        r.count('bfs-fixpoint')
        for c, h in seen.items():
            if c[0] >= 1:
                r.count('accepted-config')
            if c[0] == 2:
                r.count('accepted-upload')
        r.count('refused', st.transitions)
        r.count('answered-search', sum(1 for c in seen if c[0] == 2 and c[3]))
        r.count('reconnect-before-cleanup', st.states)
        if st.capped:
            r['caps'].append('C10 BFS state cap hit')
        r.outcome('bfs-fixpoint/states=%d' % st.states)
        longest = max(seen.values(), key=len)
        r.sample({'states': st.states, 'transitions': st.transitions, 'max_depth': st.max_depth, 'a_deepest_history': list(longest)})
    else:
        depth = DEPTH[tier]
        count = [0]

        def run_hist(hist):
            s = system.fresh()
            try:
                for i, ev in enumerate(hist):
                    if ev not in system.events(s):
                        return False
                    for prob in system.step(s, ev):
                        on_problem(hist[:i], ev, prob)
                    r['transitions'] += 1
                if s.model['state'] > 0:
                    r['nontrivial'] += 1
                    r.count('accepted-config')
                if s.model['state'] == 2:
                    r.count('accepted-upload')
                return True
            finally:
                system.dispose(s)

        def rec(hist):
            if not run_hist(hist):
                return
            count[0] += 1
            r['evaluations'] += 1
            r['traces'] += 1
            r.count('dfs-histories')
            if len(hist) < depth:
                for ev in ALPHABET:
                    rec(hist + [ev])
        if p['kind'] == 'dfs':
            rec(list(p['prefix']))
        else:
            for ev in ALPHABET:
                if run_hist([ev]):
                    r['evaluations'] += 1
                    r.count('dfs-histories')
        r.outcome('dfs-complete')
        r.sample({'dfs_prefix': p.get('prefix'), 'depth': depth, 'histories': count[0]}, limit=1)
    det.restore()
    return r


def replay(case, seed):
    r = core.Result()
    if case.get('engine') == 'tcp':
        from mc import loopback
        n, bad = loopback.replay_c10_histories(seed, [case['history']])
        for b in bad:
            r.v(PROPERTY, 'harness', 'virtual-vs-tcp-disagreement', 'c10-history', case, b['virtual'], b['tcp'])
        return r['violations']
    system = ServerSystem(seed)
    if case.get('engine') == 'long':
        run_long(r, system, long_history(case['rounds']) if 'rounds' in case else list(case['history']) + [case['event']])
        return r['violations']
    s = system.fresh()
    try:
        for ev in case['history']:
            system.step(s, ev)
        for prob in system.step(s, case['event']):
            r.v(PROPERTY, 'server', prob[0], prob[1], case, prob[2], prob[3])
    finally:
        system.dispose(s)
    return r['violations']

# a subset of the units is executed again in other environments (child interpreters): see core.run_variants
ENV_VARIANTS = [{'name': 'python-O', 'flags': ['-O']}, {'name': 'nofile-128', 'rlimit': {'NOFILE': 128}}]

def variant_units(tier, seed, name):
    pred = (lambda uid, p: p.get('kind') == 'long') if name == 'nofile-128' else (lambda uid, p: p.get('kind') == 'bfs')
    return [u for u in units('quick', seed) if pred(u[0], u[1])]

