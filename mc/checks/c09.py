"""C09 - end to end: results delivered through client and server equal the local answer (engine E3)."""
import copy, itertools, json, os
from mc import core, det, vnet, fe, sse

PROPERTY = 'C09'
ENGINE = 'E3 real client Service + real server + real websockets on the virtual network; exhaustive enumeration of client-reload / server-restart placements over the workflow'
LEVEL = 'model_checking'
DIRECTED_ADDITIONS = 'a refused create of another scheme on the same client object first, the workflow spread over two real interpreters with different hash seeds (server restart / CLI as they really happen), two interleaved services (incl. a 14-posting keyword and concurrent searches), patterned keys, 27 cleanup-timer variants, early client object, single-keyword databases, the CLI itself (JSON files, names, name collisions, fresh process per command and one long-lived process), a result above 1 MiB, composed/decomposed Unicode keywords, awkward sid characters, loopback-TCP replays'      # members added during the seeded-change campaign (DESIGN 7); counted under their own vacuity counters

STEPS = ['create', 'genkey', 'encrypt', 'upload-config', 'upload-index', 'search1', 'search2']
CHUNK = 16


def wf_cfg(name):
    c = sse.base_cfg(name)
    c['param_identifier_size'] = 8
    if name in ('CGKO06.SSE1', 'CGKO06.SSE2'):
        c['param_l'] = 16
    if name == 'CGKO06.SSE1':
        c['param_dictionary_size'] = 8
    return c


def wf_cfg2(name):
    """a second valid configuration of the same scheme in which every width differs from wf_cfg (two services of one scheme
    on one server / in one client process must not see each other's parameters)"""
    over = {
        'CJJ14.PiBas': dict(param_lambda=24, prf_f_output_length=24),
        'CJJ14.PiPack': dict(param_lambda=24, prf_f_output_length=24, param_B=8, param_identifier_size=4),
        'CJJ14.PiPtr': dict(param_lambda=24, prf_f_output_length=24, param_B=8, param_b=4, param_identifier_size=4),
        'CJJ14.Pi2Lev': dict(param_lambda=24, prf_f_output_length=24, param_B=3, param_b=3, param_B_prime=3, param_b_prime=3, param_identifier_size=4),
        'CT14.Pi': dict(param_k=24, param_k_prime=32, param_l=8, param_identifier_size=4),
        'ANSS16.Scheme3': dict(param_lambda=24, param_k=24, param_k_prime=24, param_l=8, param_l_prime=20, param_identifier_size=4),
        'DP17.Pi': dict(param_lambda=24, param_L=2, param_actual_storage_level_ratio=0.5, param_identifier_size=4, hash_h='sha256'),
        'CGKO06.SSE1': dict(param_k=24, param_l=8, param_s=256, param_dictionary_size=16, param_identifier_size=4),
        'CGKO06.SSE2': dict(param_k=24, param_l=8, param_max_file_size=300, param_identifier_size=4),
    }[name]
    return sse.base_cfg(name, **over)


def json_db_small_ids():
    # 'delta': 14 postings - with the second configuration's small block parameters that is Pi2Lev's two-level (large) case and
    # several chunks per keyword for DP17 with L = 2
    return {'alpha': ['deadbeef', '00000001', 'CAFE0000', '01020304', '0a0b0c0d'], 'beta': ['deadbeef'], 'gam': ['11111111', '22222222'],
            'delta': ['d%07x' % (i * 0x01010101 % 0xfffffff) for i in range(1, 15)]}


def json_dbs():
    db1 = json.load(open(core.REPO + '/example_db.json'))
    db2 = {
        'solo': ['646f633030303031'],                                   # b'doc00001' - one posting, printable (utf8 format)
        'block': ['646f633030303032', '646f633030303033', '646f633030303034', 'AB00000000000001'],   # block boundary (B = 2), mixed case hex
        'ünï-cødé': ['00000000000000ff', '0100000000000000', '646f633030303031'],
        # the same word in composed and in decomposed Unicode form, the Angstrom sign and the letter it decomposes to: four
        # different keywords (a keyword is the UTF-8 of the text as it stands in the file)
        'caf\u00e9': ['c0ffee0000000001'], 'cafe\u0301': ['c0ffee0000000002', 'c0ffee0000000003'], '\u212b': ['a000000000000001'], '\u00c5': ['a000000000000002'],
    }
    db3 = {'only': ['00000000000000a1', '00000000000000a2', '00000000000000a3', '00000000000000a4']}   # one keyword holds the whole database, N = 2^2
    db4 = {'lone': ['1122334455667788']}                                                                  # one keyword, one posting
    return [db1, db2, db3, db4]


_big = {}


def json_db_big():
    """one keyword whose result (9000 identifiers of 128 bytes) serializes to more than 1 MiB - the default message limit of
    the websockets library - and an index of several MiB; plus a one-posting keyword"""
    if not _big:
        import hashlib
        ids = [b''.join(hashlib.sha256(b'big-%d-%d' % (i, j)).digest() for j in range(4)).hex() for i in range(9000)]
        _big['db'] = {'big': ids, 'tiny': [ids[0][:-2] + '00']}
    return _big['db']


def describe(tier):
    d = _describe(tier)
    d['rule'] = d['rule'] + ' Directed additions: ' + DIRECTED_ADDITIONS + '.'
    return d


def _describe(tier):
    return {
        'rule': 'case = (scheme, JSON database, placement): all 9 schemes x 2 JSON databases (the repository\'s example_db.json; one with a ' 
                '[plus, with 3 placements each: a one-keyword database of 4 postings and a one-keyword one-posting database] '
                '1-posting keyword, a block-boundary list, mixed-case hex and a non-ASCII keyword) x ALL 2^6 placements of {keep the client '
                'object, close_service() + Service(sid) reloaded from disk} over the 6 boundaries of create | genkey | encrypt | upload-config | '
                'upload-index | search1 | search2, x server restart in {none, before search1, before search2} (with a reloaded client). The '
                'driver mirrors frontend/client/commands.py (JSON -> convert_database_keyword_to_bytes, wait callbacks) and searches every '
                'keyword plus one absent keyword in both search steps. Oracle: the bytes handed to the search callback deserialize to '
                'DB.get(w, empty); hex/int/raw (and utf8 for printable identifiers) renderings of BytesConverter reproduce the JSON identifiers; '
                'a step that raises or a search that ends in the client\'s 60 s (virtual) timeout is a violation. Plus, per scheme: all 27 ways of letting none / one / all of the server\'s cleanup timers fire after upload-config, upload-index and search1; a second client object loaded from disk before a later step and used (still unconnected) for the searches; one workflow whose index is several MiB and whose largest result (9000 identifiers of 128 bytes) exceeds 1 MiB; the workflow through frontend/client/commands.py itself (JSON files in, service addressed by name, one fresh process per command, printed hex and int results compared with the JSON file) for 3 databases; two services with different parameters interleaved command by '
                'command on one server and one client process (both orders). Deliveries are sequential '
                '(one client): no scheduling choices. non-trivial = placement with at least one reload.',
        'bounds': '2^6 placements x 3 restart options per (scheme, database); 7 steps',
        'assumptions': ['in-memory transport instead of TCP (validated by mc/loopback.py on loopback TCP)',
                        'server restart = the server process is killed between two client commands and started again on the same directory'],
        'must_be_nonzero': ['workflows', 'absent-searched', 'server-restarts', 'reloads', 'tcp-loopback-replays', 'two-service-workflows', 'patterned-keys', 'timing-variants', 'early-object-variants', 'cli-workflows', 'large-workflows', 'concurrent-searches', 'cli-name-collisions', 'workflows-over-two-processes', 'refused-create-first'],
    }


def placements():
    out = []
    for bits in itertools.product((0, 1), repeat=6):
        for restart in (None, 5, 6):
            if restart is not None and not bits[restart - 1]:
                continue
            out.append((list(bits), restart))
    return out


def units(tier, seed):
    us = []
    n = len(placements())
    for name in sse.SCHEMES:
        for dbi in range(2):
            for k in range(0, n, CHUNK):
                us.append(('%s/db%d/%d' % (name, dbi, k), {'scheme': name, 'dbi': dbi, 'lo': k, 'hi': k + CHUNK}))
    for name in sse.SCHEMES:
        us.append(('two-services/%s' % name, {'two': name}))
        us.append(('small-dbs/%s' % name, {'smalldbs': name}))
        us.append(('cli/%s' % name, {'cli': name}))
    for name in ('CJJ14.PiBas', 'CGKO06.SSE1', 'DP17.Pi', 'CT14.Pi'):
        us.append(('keypatterns/%s' % name, {'keypatterns': name}))
    for name in (['CJJ14.PiBas'] if tier == 'quick' else ['CJJ14.PiBas', 'CJJ14.PiPack', 'CT14.Pi']):
        us.append(('large/%s' % name, {'large': name}))
    for name in sse.SCHEMES:
        us.append(('timing/%s' % name, {'timing': name}))
        us.append(('refused-create-first/%s' % name, {'refusedfirst': name}))
        us.append(('processes/%s' % name, {'processes': name, 'splits': [1, 2, 3, 4, 5, 6]}))
    # conformance of the transport model: workflows replayed over real loopback TCP with the real client (mc/loopback.py)
    if tier == 'quick':
        us.append(('tcp/0', {'tcp': [['CJJ14.PiBas', 0, [1, 0, 1, 0, 1, 1]]]}))
        us.append(('tcp/1', {'tcp': [['CJJ14.Pi2Lev', 1, [0, 0, 0, 0, 0, 0]]]}))
    else:
        for i, name in enumerate(sse.SCHEMES):
            us.append(('tcp/%d' % i, {'tcp': [[name, i % 2, [1, 1, 1, 1, 1, 1]], [name, (i + 1) % 2, [0, 1, 0, 0, 1, 0]]]}))
    return sorted(us, key=lambda u: not u[0].startswith('tcp'))


def run_case(r, seed, name, dbi, bits, restart, keypattern=None, timing=None, early_object_at=None, cfg_over=None, steps=None, sid=None, prelude=None):
    from toolkit.database_utils import convert_database_keyword_to_bytes
    from toolkit.bytes_utils import BytesConverter
    case = {'scheme': name, 'db': dbi, 'reload_before_step': bits, 'server_restart_before_step': restart}
    if keypattern:
        case['keypattern'] = keypattern
        r.count('patterned-keys')
    if timing:
        case['cleanup_timers_fired_after_step'] = timing
        r.count('timing-variants')
    if early_object_at is not None:
        case['early_client_object_loaded_before_step'] = early_object_at
        r.count('early-object-variants')
    bad = None
    if prelude:
        # before the create, the SAME client object is offered a configuration of another scheme that cannot be instantiated
        case['refused_create_first'] = prelude
        bad = wf_cfg(prelude)
        bad['param_lambda' if 'param_lambda' in bad else 'param_k_prime' if 'param_k_prime' in bad else 'param_k'] = 17
        try:
            sse.loader(prelude).SSEScheme(copy.deepcopy(bad))
            r.count('prelude-configuration-instantiable (skipped)')
            return None
        except Exception:
            r.count('refused-create-first')
    core.note_case(case)
    if steps:
        # one phase (steps[0] <= i < steps[1]) of a workflow that is spread over several interpreters (run_processes)
        case['phase_steps'] = list(steps)
        det.seed_case(seed, PROPERTY, name, dbi, 'phase', steps[0])
    else:
        det.seed_case(seed, PROPERTY, name, dbi)
    jdb = json_dbs()[dbi] if dbi != 'big' else json_db_big()
    cfg = wf_cfg(name)
    if cfg_over:
        cfg.update(cfg_over)
        case['cfg_over'] = cfg_over
        r.count('large-workflows')
    bdb = convert_database_keyword_to_bytes(jdb)
    cfg = sse.finalize_cfg(name, cfg, bdb)
    r['evaluations'] += 1
    r['states'] += 1
    r.count('workflows')
    if any(bits):
        r['nontrivial'] += 1
        r.count('reloads', sum(bits))
    w = fe.World(eager=True)
    cl = fe.ClientDriver(w)
    if sid:
        cl.sid = sid
    step = 'boot'
    try:
        w.start_server()
        early = None
        for i, step in enumerate(STEPS):
            if steps and not (steps[0] <= i < steps[1]):
                continue
            if timing and i > 0 and timing.get(str(i - 1)):
                # virtual time passes between two commands: fire one / all of the server's pending cleanup timers
                if timing[str(i - 1)] == 1:
                    fe.fire_one_short_timer(w.loop)
                else:
                    fe.settle(w.loop, timers=True)
            if early_object_at == i:
                # a second client object is created from disk now, stays unconnected, and is used for the searches later:
                # its flags are older than what the server knows by then
                early = fe.ClientDriver(w, 'client#early')
                early.sid = cl.sid
                early.load()
            if early is not None and step.startswith('search') and cl is not early:
                cl.drop()
                cl = early
            if i > 0 and not (early is not None and step.startswith('search')):
                if restart == i:
                    cl.drop()
                    w.kill_server()
                    w.start_server()
                    cl.load()
                    r.count('server-restarts')
                else:
                    cl.ensure(reload=bool(bits[i - 1]))
            r['transitions'] += 1
            if step == 'create':
                cl.create(copy.deepcopy(cfg), prelude=copy.deepcopy(bad))
                if bad is not None and cl.prelude_outcome == 'accepted':
                    r.v(PROPERTY, name, 'uninstantiable-configuration-accepted', 'create', case, 'refused', 'accepted')
            elif step == 'genkey':
                if keypattern:          # key material with awkward byte values (leading/trailing whitespace, NUL, ...)
                    det.pattern_urandom(keypattern, seed, name)
                cl.genkey()
                if keypattern:
                    det.seed_case(seed, PROPERTY, name, dbi, 'after-key')
            elif step == 'encrypt':
                cl.encrypt(convert_database_keyword_to_bytes(json.loads(json.dumps(jdb))))
            elif step == 'upload-config':
                ack = cl.upload_config()
                if not ack or not ack[0].get('ok'):
                    r.v(PROPERTY, name, 'upload-refused', step, case, 'ok', ack)
            elif step == 'upload-index':
                ack = cl.upload_index()
                if not ack or not ack[0].get('ok'):
                    r.v(PROPERTY, name, 'upload-refused', step, case, 'ok', ack)
            else:
                kws = list(jdb) + ['absent-keyword']
                for kw in kws:
                    kwb = bytes(kw, encoding='utf-8')
                    exp = bdb.get(kwb, [])
                    if kw not in jdb:
                        r.count('absent-searched')
                    r['transitions'] += 1
                    try:
                        got = cl.search(kwb)
                    except Exception as e:
                        kind = 'search-timeout' if isinstance(e, (TimeoutError,)) or 'Timeout' in type(e).__name__ else 'search-raises'
                        r.v(PROPERTY, name, kind, '%s:%s' % (core.exc_site(e), type(e).__name__), dict(case, keyword=kw, step=step),
                            exp, core.exc_text(e))
                        r.outcome(kind)
                        cl.svc = None if kind == 'search-timeout' else cl.svc
                        if cl.svc is None:
                            cl.load()
                        continue
                    if len(got) != 1:
                        r.v(PROPERTY, name, 'callback-count', step, dict(case, keyword=kw), 'exactly one result delivered', len(got))
                        continue
                    try:
                        res = cl.svc.sse_module_loader.SSEResult.deserialize(got[0], cl.svc.config_object).get_result_list()
                    except Exception as e:
                        r.v(PROPERTY, name, 'result-undecodable', type(e).__name__, dict(case, keyword=kw), exp, core.exc_text(e))
                        continue
                    if not sse.result_ok(name, res, exp):
                        r.v(PROPERTY, name, 'result-differs', sse.classify_diff(name, res, exp) + ('/absent' if kw not in jdb else ''),
                            dict(case, keyword=kw, step=step), exp, res)
                        r.outcome('result-differs')
                        continue
                    order = exp if name not in sse.SET_RESULT else sorted(res)
                    jl = [h.lower() for h in jdb.get(kw, [])]
                    hexs = [BytesConverter.convert_bytes(x, 'hex') for x in order]
                    ints = [BytesConverter.convert_bytes(x, 'int') for x in order]
                    if sorted(hexs) != sorted(jl) or (name not in sse.SET_RESULT and hexs != jl):
                        r.v(PROPERTY, name, 'rendering-differs', 'hex', dict(case, keyword=kw), jl, hexs)
                    if sorted(ints) != sorted(int(h, 16) for h in jl):
                        r.v(PROPERTY, name, 'rendering-differs', 'int', dict(case, keyword=kw), 'ints of the JSON identifiers', ints)
                    if [BytesConverter.convert_bytes(x, 'raw') for x in order] != list(order):
                        r.v(PROPERTY, name, 'rendering-differs', 'raw', dict(case, keyword=kw), 'identity', 'differs')
                    if kw == 'solo':
                        if [BytesConverter.convert_bytes(x, 'utf8') for x in order] != ['doc00001']:
                            r.v(PROPERTY, name, 'rendering-differs', 'utf8', dict(case, keyword=kw), ['doc00001'], 'differs')
                    r.outcome('search-ok/' + ('present' if kw in jdb else 'absent'))
        cl.drop()
    except Exception as e:
        kind = 'step-timeout' if 'Timeout' in type(e).__name__ else 'step-raises'
        r.v(PROPERTY, name, kind, '%s/%s:%s' % (step, core.exc_site(e), type(e).__name__), dict(case, step=step), 'workflow step succeeds', core.exc_text(e))
        r.outcome(kind)
    finally:
        if steps:
            w.sids, w.client_sids = [], []         # the on-disk state is handed to the next phase
        w.close()
    if r['evaluations'] % 29 == 1:
        r.sample(case)
    return cl.sid


def run_processes(r, seed, name, dbi, split):
    """the workflow spread over two real interpreters with different hash seeds, sharing only the on-disk state: steps before
    `split` in the first process, the rest - server started anew, client re-created from disk - in the second.  split = 5 is 'the
    server restarted after the upload' as a restart really happens; the other splits are what the CLI does (a process per command)."""
    import subprocess, tempfile, shutil, sys
    case = {'scheme': name, 'db': dbi, 'process_split_before_step': split, 'hash_seeds': [101, 202]}
    core.note_case(case)
    home = tempfile.mkdtemp(prefix='c09-processes-', dir=det.scratch_home())
    r['evaluations'] += 1
    r['states'] += 1
    r['nontrivial'] += 1
    r.count('workflows-over-two-processes')
    sid = None
    try:
        for (a, b), hs in (((0, split), 101), ((split, len(STEPS)), 202)):
            arg = json.dumps({'home': home, 'seed': seed, 'scheme': name, 'db': dbi, 'steps': [a, b], 'sid': sid})
            env = dict(os.environ, PYTHONHASHSEED=str(hs), HOME=home)
            p = subprocess.run([sys.executable, '-B', '-m', 'mc.phase09', arg], capture_output=True, text=True, env=env, timeout=600, cwd=core.VERIF)
            line = [l for l in p.stdout.splitlines() if l.startswith('PHASE-RESULT ')]
            if not line:
                r.v(PROPERTY, name, 'step-raises', 'process-phase-%d-%d/no-result' % (a, b), case, 'the phase finishes', (p.stdout + p.stderr)[-600:])
                return
            out = json.loads(line[-1][len('PHASE-RESULT '):])
            r['transitions'] += out.get('transitions', 0)
            sid = out['sid']
            for v in out['violations']:
                r.v(PROPERTY, v['component'], v['kind'], v['site'] + '/second-process' * (a > 0), dict(case, inner=v['case']), v['expected'], v['observed'])
                r.outcome(v['kind'])
            if out['violations']:
                return
        r.outcome('processes-ok')
    finally:
        shutil.rmtree(home, ignore_errors=True)


def run_two_services(r, seed, name, order):
    """two services of ONE scheme with different parameters, interleaved command by command on one server and in one client
    process: parameters, keys and indexes of one service must not leak into the other"""
    from toolkit.database_utils import convert_database_keyword_to_bytes
    case = {'scheme': name, 'two_services': True, 'order': order}
    core.note_case(case)
    det.seed_case(seed, PROPERTY, 'two', name, order)
    jd = [json_dbs()[0], json_db_small_ids()]
    cfgs = [wf_cfg(name), wf_cfg2(name)]
    bd = [convert_database_keyword_to_bytes(j) for j in jd]
    cfgs = [sse.finalize_cfg(name, c, b) for c, b in zip(cfgs, bd)]
    idx = [0, 1] if order == 0 else [1, 0]
    r['evaluations'] += 1
    r['states'] += 1
    r['nontrivial'] += 1
    r.count('two-service-workflows')
    w = fe.World(eager=True)
    step = 'boot'
    try:
        w.start_server()
        cl = [fe.ClientDriver(w), fe.ClientDriver(w)]
        for step in ('create', 'genkey', 'encrypt', 'upload-config', 'upload-index'):
            for i in idx:
                r['transitions'] += 1
                if step == 'create':
                    cl[i].create(copy.deepcopy(cfgs[i]))
                    continue
                cl[i].load()
                if step == 'genkey':
                    cl[i].genkey()
                elif step == 'encrypt':
                    cl[i].encrypt(convert_database_keyword_to_bytes(jd[i]))
                elif step == 'upload-config':
                    cl[i].upload_config(); cl[i].drop()
                else:
                    cl[i].upload_index(); cl[i].drop()
        for rnd in range(2):
            for i in (idx if rnd == 0 else idx[::-1]):
                for kw in list(jd[i]) + ['nokw']:
                    step = 'search'
                    cl[i].load()
                    got = cl[i].search(bytes(kw, 'utf-8'))
                    res = cl[i].svc.sse_module_loader.SSEResult.deserialize(got[0], cl[i].svc.config_object).get_result_list() if got else None
                    cl[i].drop()
                    r['transitions'] += 1
                    exp = bd[i].get(bytes(kw, 'utf-8'), [])
                    if res is None or not sse.result_ok(name, res, exp):
                        r.v(PROPERTY, name, 'result-differs', 'two-services/' + (sse.classify_diff(name, res, exp) if res is not None else 'none'),
                            dict(case, service=i, keyword=kw), exp, res)
                        r.outcome('two-services-differs')
                    else:
                        r.outcome('two-services-ok')
        # both client objects alive and connected, their searches IN FLIGHT AT THE SAME TIME (one client process serving two
        # services): every reply must reach the object that asked
        step = 'concurrent-search'
        kws = [list(jd[0]) + ['nokw'], list(jd[1]) + ['nokw']]
        for c_ in cl:
            c_.load()
        for k in range(max(len(kws[0]), len(kws[1]))):
            pair = [kws[0][k % len(kws[0])], kws[1][k % len(kws[1])]]
            sinks = [[], []]

            def mk(i):
                async def one():
                    res_ = cl[i].svc.handle_keyword_search(bytes(pair[i], 'utf-8'), wait=True, wait_callback_func=lambda fut, i=i: sinks[i].append(fut.result()))
                    if hasattr(res_, '__await__'):
                        await res_
                return one()
            ts = [w.loop.spawn(mk(i), cl[i].comp) for i in (idx if k % 2 == 0 else idx[::-1])]
            w.loop.run_until(lambda: all(t.done() for t in ts))
            for t in ts:
                t.result()
            r['transitions'] += 2
            r.count('concurrent-searches')
            for i in (0, 1):
                exp = bd[i].get(bytes(pair[i], 'utf-8'), [])
                res = cl[i].svc.sse_module_loader.SSEResult.deserialize(sinks[i][0], cl[i].svc.config_object).get_result_list() if len(sinks[i]) == 1 else None
                if res is None or not sse.result_ok(name, res, exp):
                    r.v(PROPERTY, name, 'result-differs', 'two-services/concurrent/' + (sse.classify_diff(name, res, exp) if res is not None else 'callbacks=%d' % len(sinks[i])),
                        dict(case, service=i, keyword=pair[i], concurrent_with=pair[1 - i]), exp, res)
                    r.outcome('two-services-differs')
                else:
                    r.outcome('two-services-ok')
        for c_ in cl:
            c_.drop()
    except Exception as e:
        r.v(PROPERTY, name, 'step-raises', 'two-services/%s/%s:%s' % (step, core.exc_site(e), type(e).__name__), dict(case, step=step), 'workflow step succeeds', core.exc_text(e))
    finally:
        w.close()
    r.sample(case, limit=1)


def run_cli(r, seed, name, dbi, same_process=False):
    """the whole workflow through frontend/client/commands.py - the functions run_client.py dispatches to: configuration and
    database come from JSON FILES, the service is addressed by name, every command is a fresh client 'process', results are
    what the command prints in the hex and int formats"""
    import io, contextlib, re, ast
    from toolkit.database_utils import convert_database_keyword_to_bytes
    case = {'scheme': name, 'db': dbi, 'cli': True}
    if same_process:
        case['same_process'] = True          # the commands module used as a library: module-level caches live across commands
    core.note_case(case)
    det.seed_case(seed, PROPERTY, name, dbi, 'cli')
    jdb = json_dbs()[dbi]
    bdb = convert_database_keyword_to_bytes(json.loads(json.dumps(jdb)))
    expected = {kw: [bytes.fromhex(h) for h in ids] for kw, ids in jdb.items()}          # independent of the library's converter
    cfg = sse.finalize_cfg(name, wf_cfg(name), bdb)
    r['evaluations'] += 1
    r['states'] += 1
    r['nontrivial'] += 1
    r.count('cli-workflows')
    w = fe.World(eager=True)
    files = det.workdir('c09cli')
    step = 'boot'
    try:
        import frontend.client.commands as cmd
        import frontend.client.services.service_name_handler as snh
        cfg_path, db_path = os.path.join(files, 'cfg.json'), os.path.join(files, 'db.json')
        json.dump(cfg, open(cfg_path, 'w'))
        json.dump(jdb, open(db_path, 'w'))
        w.start_server()
        n = [0]

        def fresh_process():
            setattr(cmd, '__client_service', None)
            for fn in (snh.read_service_mapping, snh.write_service_mapping):
                for cell in (fn.__closure__ or ()):
                    try:
                        if isinstance(cell.cell_contents, dict):
                            cell.cell_contents = None
                    except ValueError:
                        pass

        def run(f, *a, expect_error=False, **k):
            if not same_process:
                fresh_process()
            n[0] += 1
            buf = io.StringIO()

            async def wrapper():
                res = f(*a, **k)
                if hasattr(res, '__await__'):
                    res = await res
                return res
            with contextlib.redirect_stdout(buf):
                t = w.loop.spawn(wrapper(), 'client#%d' % n[0])
                w.loop.run_until(t.done)
                t.result()
            fe.settle(w.loop, timers=True)
            root = str(w.m['cfm']._PROGRAM_PATH)
            for d in os.listdir(root):
                if os.path.isdir(os.path.join(root, d)) and d not in w.client_sids:
                    w.client_sids.append(d)
                    w.sids.append(d)
            text = buf.getvalue()
            if (re.search(r'error', text, re.I) or 'Unsupported' in text) and not expect_error:
                raise RuntimeError('command printed: ' + text.strip().splitlines()[-1][:200])
            return text
        sname = 'svc-%s' % name
        fresh_process()              # this execution starts in a new process in either mode
        for step, f, a in (('create', cmd.create_service, (cfg_path, sname)), ('genkey', cmd.generate_key, ()), ('encrypt', cmd.encrypt_database, (db_path,)),
                           ('upload-config', cmd.upload_config, ()), ('upload-index', cmd.upload_encrypted_database, ())):
            r['transitions'] += 1
            run(f, *a, **({} if step == 'create' else {'sname': sname}))
        for fmt in ('hex', 'int'):
            if fmt == 'int':
                # between the two search rounds: the same name is asked for again (the name is taken: refused, whatever else
                # happens), then another service is created under another name; the first name still means the first service
                step = 'create-under-taken-name'
                run(cmd.create_service, cfg_path, sname, expect_error=True)
                step = 'create-under-another-name'
                run(cmd.create_service, cfg_path, sname + '-2')
                r.count('cli-name-collisions')
            for kw in list(jdb) + ['absent-keyword']:
                step = 'search/%s' % fmt
                r['transitions'] += 1
                text = run(cmd.search, kw, fmt, sname=sname)
                m_ = re.search(r'>>> The result is (\[.*?\])\.', text)
                if not m_:
                    r.v(PROPERTY, name, 'cli-no-result-printed', fmt, dict(case, keyword=kw), 'a result line', text.strip()[-160:])
                    continue
                got = ast.literal_eval(m_.group(1))
                exp = expected.get(kw, [])
                if fmt == 'hex':
                    gotv, expv = [str(x).lower() for x in got], [x.hex() for x in exp]
                else:
                    gotv, expv = [int(x) for x in got], [int.from_bytes(x, 'big') for x in exp]
                if sorted(gotv) != sorted(expv) or (name not in sse.SET_RESULT and gotv != expv):
                    r.v(PROPERTY, name, 'cli-result-differs', fmt + ('/absent' if kw not in jdb else ''), dict(case, keyword=kw), expv, gotv)
                    r.outcome('cli-result-differs')
                else:
                    r.outcome('cli-search-ok/' + ('present' if kw in jdb else 'absent'))
    except Exception as e:
        kind = 'step-timeout' if 'Timeout' in type(e).__name__ else 'step-raises'
        r.v(PROPERTY, name, kind, 'cli/%s/%s:%s' % (step, core.exc_site(e), type(e).__name__), dict(case, step=step), 'command succeeds', core.exc_text(e))
        r.outcome(kind)
    finally:
        import shutil
        shutil.rmtree(files, ignore_errors=True)
        try:
            import frontend.client.services.service_name_handler as snh2
            os.unlink(str(snh2.SERVICE_MAPPING_PATH))
        except Exception:
            pass
        w.close()
    r.sample(case, limit=1)


def run_unit(p, tier, seed):
    r = core.Result()
    if 'cli' in p:
        for dbi in (0, 1, 2):
            run_cli(r, seed, p['cli'], dbi)
        run_cli(r, seed, p['cli'], 1, same_process=True)
        det.restore()
        return r
    if 'two' in p:
        for order in (0, 1):
            run_two_services(r, seed, p['two'], order)
        det.restore()
        return r
    if 'large' in p:
        run_case(r, seed, p['large'], 'big', [1] * 6, None, cfg_over={'param_identifier_size': 128})
        det.restore()
        return r
    if 'smalldbs' in p:
        for dbi in (2, 3):
            for bits in ([0] * 6, [1] * 6, [1, 0, 1, 0, 1, 0]):
                run_case(r, seed, p['smalldbs'], dbi, bits, None)
        det.restore()
        return r
    if 'timing' in p:
        import itertools as _it
        for t3, t4, t5 in _it.product((0, 1, 2), repeat=3):
            run_case(r, seed, p['timing'], 0, [1, 1, 1, 1, 1, 1], None, timing={'3': t3, '4': t4, '5': t5})
        for at in (2, 3, 4):
            for keep in (0, 1):
                run_case(r, seed, p['timing'], 1, [keep] * 6, None, early_object_at=at)
        det.restore()
        return r
    if 'refusedfirst' in p:
        i = sse.SCHEMES.index(p['refusedfirst'])
        for other in (sse.SCHEMES[(i + 1) % len(sse.SCHEMES)], sse.SCHEMES[i - 1], sse.SCHEMES[(i + 4) % len(sse.SCHEMES)]):
            for bits in ([0] * 6, [0, 0, 1, 0, 1, 0]):
                run_case(r, seed, p['refusedfirst'], 1, bits, None, prelude=other)
        det.restore()
        return r
    if 'processes' in p:
        for split in p['splits']:
            run_processes(r, seed, p['processes'], split % 2, split)
        det.restore()
        return r
    if 'keypatterns' in p:
        for pat in det.KEY_PATTERNS:
            run_case(r, seed, p['keypatterns'], 0, [1, 1, 1, 1, 1, 1], None, keypattern=pat)
        det.restore()
        return r
    if 'tcp' in p:
        from mc import loopback
        n, bad = loopback.replay_c09_workflows(seed, [tuple(c) for c in p['tcp']])
        r.count('tcp-loopback-replays', n)
        r['evaluations'] += n
        r['traces'] += n
        for b in bad:
            r.v(PROPERTY, 'harness', 'virtual-vs-tcp-disagreement', 'c09-workflow', {'tcp': p['tcp']}, 'correct results over loopback TCP as on the virtual network', b)
        r.outcome('tcp-agrees' if not bad else 'tcp-disagrees')
        r.sample({'tcp_loopback_replay': p['tcp'][0]}, limit=1)
        det.restore()
        return r
    for bits, restart in placements()[p['lo']:p['hi']]:
        run_case(r, seed, p['scheme'], p['dbi'], bits, restart)
    det.restore()
    return r


def replay(case, seed):
    r = core.Result()
    if 'tcp' in case:
        return run_unit({'tcp': case['tcp']}, 'quick', seed)['violations']
    if 'process_split_before_step' in case:
        run_processes(r, seed, case['scheme'], case['db'], case['process_split_before_step'])
        return r['violations']
    if case.get('two_services'):
        run_two_services(r, seed, case['scheme'], case['order'])
        return r['violations']
    if case.get('cli'):
        run_cli(r, seed, case['scheme'], case['db'], same_process=bool(case.get('same_process')))
        return r['violations']
    run_case(r, seed, case['scheme'], case['db'], case['reload_before_step'], case['server_restart_before_step'], keypattern=case.get('keypattern'), cfg_over=case.get('cfg_over'),
             timing=case.get('cleanup_timers_fired_after_step'), early_object_at=case.get('early_client_object_loaded_before_step'), prelude=case.get('refused_create_first'))
    return r['violations']
