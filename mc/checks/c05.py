"""C05 - index size and layout reveal only the scheme's public size parameter (engine E1)."""
from mc import core, det, domains, sse

PROPERTY = 'C05'
ENGINE = 'E1 bounded-exhaustive enumeration of ALL list-length profiles per (scheme, configuration point), grouped by the public size parameter'
LEVEL = 'model_checking'
DIRECTED_ADDITIONS = 'hosts reporting 6 and 7 processors (child interpreters), configuration sweep, full identifier-size axis, equal-N families at N = 600 / 1025 (3000), empty posting lists, Pi2Lev configurations beyond its guard'      # members added during the seeded-change campaign (DESIGN 7); counted under their own vacuity counters

NMAX = {'quick': 12, 'thorough': 16}


def describe(tier):
    d = _describe(tier)
    d['rule'] = d['rule'] + ' Directed additions: ' + DIRECTED_ADDITIONS + '.'
    return d


def _describe(tier):
    n = NMAX[tier]
    return {
        'rule': 'case = (scheme, configuration point, list-length profile, content assignment); ALL integer partitions of every N<=%d '
                '(plus single-list and many-singleton profiles at 2^k and 2^k+-1 up to 64), each with two content assignments '
                '(different keys, keywords, identifiers), grouped by pi_S as defined in the property. Oracle: shape(EDBSetup) - a generic '
                'walk of the unpickled structure: container type and size, multiset of (key shape, value shape), byte strings by length, '
                'small ints by value, large ints by type - is identical for all members of a pi-class; and inside every padded table '
                '(SSE-1 A/T, CJJ14 D/A, CT14 levels, ANSS16 HT_S and levels, DP17 HT and buckets) all keys have one length and all values '
                'have one length. non-trivial = class with >= 2 distinct profiles.' % n,
        'bounds': 'all partitions of N<=%d per configuration point' % n,
        'assumptions': ['databases on which setup raises are C01\'s business and only counted here',
                        'pi_S per scheme exactly as in the property text: SSE1 (), SSE2/PiBas/DP17 N, PiPack blocks, PiPtr (blocks, pointer blocks), '
                        'Pi2Lev (keywords, array length), CT14/ANSS16 ceil(log2 N)'],
        'must_be_nonzero': ['classes-with->=2-profiles', 'uniformity-tables'],
    }


def grid(name, tier):
    pts = sse.grid(name, tier)
    if tier == 'quick':
        keep = []
        for label, cfg in pts:
            if label in ('base', 'default', 'default-s256') or label[:-1] in ('B', 'b', 'quad', 'L', 'ratio', 's', 'dict', 'max', 'id') or label in ('key0', 'l2', 'nx0'):
                keep.append((label, cfg))
        pts = keep
    if name == 'CJJ14.Pi2Lev':
        # configurations on the wrong side of the scheme's own pointer-size guard ((B*id)//B' == (b*id)//b'): refused at
        # construction on a correct tree ("setup-raises", nothing to compare) - if one is ever accepted, the shape rule applies to it
        for i, q in enumerate([dict(param_B=8, param_B_prime=8, param_b=4, param_b_prime=8, param_identifier_size=8),
                               dict(param_B=4, param_B_prime=2, param_b=2, param_b_prime=2, param_identifier_size=4),
                               dict(param_B=2, param_B_prime=4, param_b=4, param_b_prime=2, param_identifier_size=8),
                               dict(param_B=8, param_B_prime=2, param_b=8, param_b_prime=8, param_identifier_size=2)]):
            pts = pts + [('guard%d' % i, sse.base_cfg(name, **q))]
    return pts


def profile_list(name, cfg, tier, label=''):
    n = NMAX[tier]
    ps = []
    for N in range(1, n + 1):
        ps += sorted(domains.partitions(N), key=lambda p: (len(p), p))
    for k in (16, 32, 64):
        for v in (k - 1, k, k + 1):
            ps.append([v])
            ps.append([1] * v)
            ps.append([v - 2, 1, 1] if v > 3 else [v])
    ps += [[0, 3], [3, 0], [0, 1, 2], [2, 0, 1], [0, 0, 3], [1, 1, 1]]          # keywords with an empty posting list (refused by some schemes)
    if label in ('base', 'default', 'default-s256'):
        # the same N in very different distributions, at a scale where buffers, pools and levels are no longer tiny
        big = [600, 1025] if name not in ('CGKO06.SSE1', 'CGKO06.SSE2') else [100]
        if tier != 'quick' and name not in ('CGKO06.SSE1', 'CGKO06.SSE2'):
            big.append(3000)
        for N in big:
            ps += [[N], [1] * N, [N // 2, N - N // 2], [N - 2, 1, 1], [N // 15] * 14 + [N - 14 * (N // 15)]]
    out, seen = [], set()
    for p in ps:
        if tuple(p) in seen or not sse.valid_profile(name, cfg, p):
            continue
        seen.add(tuple(p))
        out.append(p)
    return out


def units(tier, seed):
    us = []
    for name in sse.SCHEMES:
        for label, cfg in grid(name, tier):
            us.append(('%s/%s' % (name, label), {'scheme': name, 'label': label, 'cfg': cfg}))
        us.append(('sweep/%s' % name, {'sweep': name}))
    return us


def uniform(vals):
    return len({(type(v).__name__, len(v) if isinstance(v, (bytes, bytearray, list, tuple)) else None) for v in vals}) <= 1


def table_uniformity(name, cfg, obj):
    """yield (table name, 'keys'|'values', lengths seen) for every padded table that is not uniform"""
    tables = []
    if name in ('CJJ14.PiBas', 'CJJ14.PiPack'):
        tables.append(('D', obj))
    elif name in ('CJJ14.PiPtr', 'CJJ14.Pi2Lev'):
        tables.append(('D', obj[0]))
        tables.append(('A', {i: x for i, x in enumerate(obj[1]) if i > 0}))
    elif name == 'CGKO06.SSE1':
        tables.append(('A', dict(enumerate(obj[0]))))
        tables.append(('T', obj[1]))
    elif name == 'CGKO06.SSE2':
        tables.append(('I', obj))
    elif name == 'CT14.Pi':
        for i, ht in enumerate(obj):
            tables.append(('HT%d' % i, ht))
    elif name == 'ANSS16.Scheme3':
        tables.append(('HT_S', obj[0]))
        for i, ht in enumerate(obj[1]):
            tables.append(('HT_L%d' % i, ht))
    elif name == 'DP17.Pi':
        tables.append(('HT', obj[0]))
        cl = sse.ske_len(cfg.get('param_identifier_size', 8) + cfg['param_lambda'])
        for lvl, buckets in obj[1].items():
            ents = {}
            for bi, b in enumerate(buckets):
                for j, e in enumerate(sse.split(b, cl)):
                    ents[(bi, j)] = e
            tables.append(('A%s' % lvl, ents))
    for tname, t in tables:
        ks = [k for k in t if not isinstance(k, (int, tuple))]
        if ks and not uniform(ks):
            yield tname, 'keys', sorted({len(k) for k in ks})
        vs = list(t.values())
        if vs and not uniform(vs):
            yield tname, 'values', sorted({len(v) if v is not None else -1 for v in vs})
    return


def run_profile(r, seed, name, label, cfg, prof, variant):
    db, cfg1, g = sse.build_db(seed, name, label, cfg, prof, 6 if variant == 0 else min(9, sse.kw_limit(name, cfg)),
                               'disjoint' if variant == 0 else 'shared')
    det.seed_case(seed, PROPERTY, name, label, tuple(prof), variant)
    L = sse.loader(name)
    scheme = L.SSEScheme(cfg1)
    key = scheme.KeyGen()
    edb = scheme.EDBSetup(key, db)
    r['transitions'] += 2
    obj = sse.unpickle_edb(edb.serialize())
    return sse.shape(obj), obj, cfg1


def run_unit(p, tier, seed):
    r = core.Result()
    if 'sweep' in p:
        # every configuration point of the scheme in ONE process, forwards then backwards, a small profile set each: state that
        # outlives a configuration object (module-level caches keyed too coarsely) is carried from one point to the next
        pts = grid(p['sweep'], tier)
        for seq in (pts, pts[::-1]):
            for label, cfg in seq:
                sub_ = run_unit({'scheme': p['sweep'], 'label': label, 'cfg': cfg, 'profiles': [[9], [3, 3, 3], [5, 4], [4, 4, 1], [1] * 9, [7, 2]]}, tier, seed)
                for v in sub_['violations']:
                    v['case']['sweep'] = True
                core.merge(r, sub_)
        r.count('sweep-points', len(pts))
        return r
    name, label, cfg = p['scheme'], p['label'], p['cfg']
    classes = {}
    members = {}
    for prof in (p.get('profiles') or profile_list(name, cfg, tier, label)):
        if not sse.valid_profile(name, cfg, prof):
            continue
        pi = sse.pi_param(name, cfg, prof)
        for variant in (0, 1):
            case = {'scheme': name, 'label': label, 'cfg': cfg, 'profile': prof, 'variant': variant}
            core.note_case(case)
            r['evaluations'] += 1
            r['states'] += 1
            try:
                sh, obj, cfg1 = run_profile(r, seed, name, label, cfg, prof, variant)
            except Exception as e:
                r.count("setup-raises (C01's subject, skipped here)")
                continue
            members.setdefault(pi, set()).add(tuple(prof))
            if pi not in classes:
                classes[pi] = (sh, prof, variant)
            elif classes[pi][0] != sh:
                first = classes[pi]
                r.v(PROPERTY, name, 'shape-differs', diff_site(first[0], sh), dict(case, pi=pi, class_first_profile=first[1], class_first_variant=first[2]),
                    'same shape as profile %s with the same public parameter %s' % (first[1], pi), describe_diff(first[0], sh))
                r.outcome('shape-differs')
            else:
                r.outcome('same-shape')
            r.count('uniformity-tables')
            for tname, what, lens in table_uniformity(name, cfg1, obj):
                r.v(PROPERTY, name, 'table-not-uniform', '%s-%s' % (tname.rstrip('0123456789'), what), dict(case, table=tname),
                    'all %s of table %s have one length' % (what, tname), 'lengths %s' % lens)
                r.outcome('table-not-uniform')
    multi = sum(1 for pi, m in members.items() if len(m) >= 2)
    r.count('classes-with->=2-profiles', multi)
    r['nontrivial'] += multi
    r.count('classes', len(classes))
    r.sample({'scheme': name, 'cfg_point': label, 'classes': len(classes), 'example_class': [list(x) for x in sorted(max(members.values(), key=len))[:4]] if members else []})
    det.restore()
    return r


def flatten(sh, path='edb'):
    """(path, atom) pairs of a shape tree, for a readable diff"""
    out = []
    if isinstance(sh, tuple) and sh and sh[0] in ('dict', 'list', 'tuple') and len(sh) == 3:
        out.append((path, '%s[%d]' % (sh[0], sh[1])))
        for i, item in enumerate(sh[2]):
            if sh[0] == 'dict' or (isinstance(item, tuple) and len(item) == 2 and isinstance(item[1], int) and not isinstance(item[0], str)):
                sub, cnt = item
                out.append((path + '/#%d' % i, 'x%d' % cnt))
                if sh[0] == 'dict':
                    out += flatten(sub[0], path + '/#%d.k' % i)
                    out += flatten(sub[1], path + '/#%d.v' % i)
                else:
                    out += flatten(sub, path + '/#%d' % i)
            else:
                out += flatten(item, path + '/%d' % i)
    else:
        out.append((path, repr(sh)))
    return out


def describe_diff(a, b):
    fa, fb = flatten(a), flatten(b)
    for (pa, xa), (pb, xb) in zip(fa, fb):
        if (pa, xa) != (pb, xb):
            return 'first difference at %s: %s vs %s' % (pa, xa, xb)
    return 'shape trees differ in length: %d vs %d atoms' % (len(fa), len(fb))


def diff_site(a, b):
    d = describe_diff(a, b)
    if 'first difference at' in d:
        path = d.split('first difference at ')[1].split(':')[0]
        top = '/'.join(path.split('/')[:2])
        return top
    return 'size'


def replay(case, seed):
    r = core.Result()
    if case.get('sweep'):
        full = run_unit({'sweep': case['scheme']}, 'quick', seed)
        return [v for v in full['violations'] if core.dec(v['case']).get('label') == case['label']]
    name, label, cfg = case['scheme'], case['label'], case['cfg']
    if 'class_first_profile' in case:
        a, _, _ = run_profile(r, seed, name, label, cfg, case['class_first_profile'], case['class_first_variant'])
        b, _, _ = run_profile(r, seed, name, label, cfg, case['profile'], case['variant'])
        if a != b:
            r.v(PROPERTY, name, 'shape-differs', diff_site(a, b), case, 'same shape', describe_diff(a, b))
    else:
        sh, obj, cfg1 = run_profile(r, seed, name, label, cfg, case['profile'], case['variant'])
        for tname, what, lens in table_uniformity(name, cfg1, obj):
            r.v(PROPERTY, name, 'table-not-uniform', '%s-%s' % (tname.rstrip('0123456789'), what), dict(case, table=tname), 'one length', 'lengths %s' % lens)
    return r['violations']

# a subset of the units is executed again in other environments (child interpreters): see core.run_variants
ENV_VARIANTS = [{'name': 'cpu-count-6', 'env': {'VERIF_CPU_COUNT': '6'}}, {'name': 'cpu-count-7', 'env': {'VERIF_CPU_COUNT': '7'}}]

def variant_units(tier, seed, name):
    pred = lambda uid, p: uid.endswith('/base') or p.get('scheme') == 'CGKO06.SSE1'
    return [u for u in units('quick', seed) if pred(u[0], u[1])]
