"""C02 - searching a keyword that is not in the database returns an empty result, no exception (engine E1)."""
from mc import core, det, domains, sse

PROPERTY = 'C02'
ENGINE = 'E1 bounded-exhaustive enumeration of (scheme, configuration point, profile) x adversarially close absent keywords'
LEVEL = 'model_checking'
DIRECTED_ADDITIONS = 'every sequence of <= 3 (thorough: 4) searches over two indexes built by one scheme object under one key x four keywords (in the first only, in the second only, in both, in neither) that ends in an absent keyword, with the second index built before any search or after the first one, the whole universe of one-byte and two-byte keywords against databases of such keywords, NUL-prefixed stored/random keywords (known finding for SSE-1/SSE-2), keywords of a second database under the same key, KiB keywords'      # members added during the seeded-change campaign (DESIGN 7); counted under their own vacuity counters

CHUNK = 40


def describe(tier):
    d = _describe(tier)
    d['rule'] = d['rule'] + ' Directed additions: ' + DIRECTED_ADDITIONS + '.'
    return d


def _describe(tier):
    n = 6 if tier == 'quick' else 9
    return {
        'rule': 'case = (scheme, configuration point of G(S), list-length profile, absent keyword); every partition of every N<=%d in '
                'both keyword orders plus boundary profiles (lengths v-1,v,v+1 around block/level/2^k boundaries <= 70); for each database '
                'the absent-keyword family built from the stored keywords: proper prefix, proper suffix, +1 byte, +trailing NUL, last bit '
                'flipped, first bit flipped, case swapped, two stored keywords concatenated (both orders), fresh random, maximal-length, '
                'single byte, the empty keyword, and the keywords of a second database encrypted under the same key by the same scheme object - all filtered to be valid and really absent. Oracle: Search(TokenGen(w\')) raises nothing and returns an '
                'empty result. non-trivial = absent keyword derived from a stored keyword.' % n,
        'bounds': 'N<=%d exhaustive over partitions; 3 stored keywords x 7 derivations + 5 others per database' % n,
        'assumptions': ['label/PRP collision of an absent keyword with a filler entry has probability <= |table| * 2^-64 per case'],
        'must_be_nonzero': ['prefix', 'suffix', 'concat', 'plus-nul', 'lead-nul-stored', 'maxlen', 'other-db-same-key', 'keyword-universes', 'universe-absent-keywords', 'search-histories'],
    }


def case_list(name, label, cfg, tier):
    n = 6 if tier == 'quick' else 9
    cases = [(p, 6, 'disjoint') for p in domains.profiles(n)]
    cases += [(p, min(3, sse.kw_limit(name, cfg)), 'shared') for p in domains.profiles(3)]
    # keywords of the maximal length the harness uses (SSE-1/SSE-2: param_l; the PRF-keyed schemes: several KiB, longer than any
    # internal buffer or block): their absent neighbours differ from them only at the very end or by one byte more or less
    cases += [(p, sse.kw_limit(name, cfg), 'disjoint') for p in domains.profiles(3)]
    lens = [v for v in domains.around(sse.special_lengths(name, cfg, tier)) if v <= 70]
    cases += [(p, 6, 'disjoint') for p in domains.boundary_profiles(lens)]
    out, seen = [], set()
    for p, kw, rel in cases:
        key = (tuple(p), kw, rel)
        if key in seen or not sse.valid_profile(name, cfg, p):
            continue
        seen.add(key)
        out.append((p, kw, rel))
    return out


def units(tier, seed):
    us = []
    for name in sse.SCHEMES:
        for label, cfg in sse.grid(name, tier):
            n = len(case_list(name, label, cfg, tier))
            for k in range(0, n, CHUNK):
                us.append(('%s/%s/%d' % (name, label, k), {'scheme': name, 'label': label, 'cfg': cfg, 'lo': k, 'hi': k + CHUNK}))
    for name in sse.SCHEMES:
        # a whole keyword universe: every one-byte and every two-byte keyword is searched in databases of such keywords
        us.append(('universe/%s/1' % name, {'kind': 'universe', 'scheme': name, 'width': 1, 'rounds': 4 if tier == 'quick' else 12}))
        if tier != 'quick' or not name.startswith('CGKO06'):
            us.append(('universe/%s/2' % name, {'kind': 'universe', 'scheme': name, 'width': 2, 'rounds': 1 if tier == 'quick' else 2}))
    for name in sse.SCHEMES:
        # search histories over two indexes built by one scheme object under one key (what an earlier search leaves behind in the
        # scheme object, the key object or the index must not answer for a keyword the searched database does not hold)
        us.append(('histories/%s' % name, {'kind': 'histories', 'scheme': name, 'depth': 3 if tier == 'quick' else 4}))
    return us


def run_histories(r, seed, name, depth, only=None):
    import itertools
    cfg = sse.base_cfg(name)
    idsize = cfg.get('param_identifier_size', 8)
    L = sse.loader(name)
    g = det.rng(seed, 'c02-histories', name)
    kwl = min(6, sse.kw_limit(name, cfg))
    wa, wb, wc, wd = [bytes([65 + i]) + g.randbytes(kwl - 1) for i in range(4)]
    mk = lambda n: [g.randbytes(idsize) for _ in range(n)]
    db1 = {wa: mk(2), wc: mk(1), bytes([70]) + g.randbytes(kwl - 1): mk(2)}        # 5 postings each: the two indexes have one shape
    db2 = {wb: mk(2), wc: mk(2), bytes([71]) + g.randbytes(kwl - 1): mk(1)}
    dbs = {1: db1, 2: db2}
    ops = [(i, w) for i in (1, 2) for w in (wa, wb, wc, wd)]
    names = {wa: 'only-in-1', wb: 'only-in-2', wc: 'in-both', wd: 'in-neither'}
    cfg2 = sse.finalize_cfg(name, cfg, db1)
    if sse.finalize_cfg(name, cfg, db2) != cfg2:
        r.count('histories-skipped-config-differs')
        return
    # setup orders: both indexes before any search; the second index only after the first search
    for late in (False, True):
        for n in range(1, depth + 1):
            for hist in itertools.product(range(len(ops)), repeat=n):
                if only is not None and (list(hist), late) != only:
                    continue
                # a history is interesting only if it ends in a search of an absent keyword
                i_last, w_last = ops[hist[-1]]
                if w_last in dbs[i_last] or (late and (n < 2 or ops[hist[0]][0] == 2)):
                    continue
                case = {'scheme': name, 'history': list(hist), 'second_setup_after_first_search': late,
                        'ops': ['search(edb%d, %s)' % (ops[h][0], names[ops[h][1]]) for h in hist]}
                core.note_case(case)
                det.seed_case(seed, PROPERTY, 'histories', name, hist, late)
                r['states'] += 1
                try:
                    scheme = L.SSEScheme(cfg2)
                    key = scheme.KeyGen()
                    edbs = {1: scheme.EDBSetup(key, db1)}
                    if not late:
                        edbs[2] = scheme.EDBSetup(key, db2)
                    r['transitions'] += 2
                except Exception as e:
                    r.count('setup-raises (C01\'s subject, skipped here)')
                    return
                r.count('search-histories')
                try:
                    for k, h in enumerate(hist):
                        i, w = ops[h]
                        if k == 1 and 2 not in edbs:
                            edbs[2] = scheme.EDBSetup(key, db2)
                        got = scheme.Search(edbs[i], scheme.TokenGen(key, w)).get_result_list()
                        r['transitions'] += 2
                        if w not in dbs[i]:
                            r['evaluations'] += 1
                            r['nontrivial'] += 1
                            if len(got) != 0:
                                r.v(PROPERTY, name, 'nonempty', 'after-earlier-searches/%s' % names[w], dict(case, step=k), 'empty result', got)
                                r.outcome('nonempty-after-history')
                                break
                    else:
                        r.outcome('empty/after-history')
                except Exception as e:
                    r.v(PROPERTY, name, 'search-raises', 'history:%s:%s' % (core.exc_site(e), type(e).__name__), case, 'empty result, no exception', core.exc_text(e))
    r.sample({'scheme': name, 'search_histories': 'all sequences of <= %d searches over 2 indexes x 4 keywords ending in an absent keyword, two setup orders' % depth})


def run_universe(r, seed, name, width, rounds, only_round=None):
    import itertools
    cfg = sse.base_cfg(name)
    idsize = cfg.get('param_identifier_size', 8)
    L = sse.loader(name)
    universe = [bytes(t) for t in itertools.product(range(256), repeat=width)]
    for rnd in range(rounds):
        if only_round is not None and rnd != only_round:
            continue
        g = det.rng(seed, 'c02-universe', name, width, rnd)
        profile = [[2, 2, 1], [3, 1, 1, 1], [1, 1, 1], [4, 2, 3, 1, 1]][rnd % 4]            # totals 5, 6, 3, 11: never a power of two
        kws = g.sample(universe, len(profile))
        db = {w: [g.randbytes(idsize) for _ in range(n)] for w, n in zip(kws, profile)}
        case = {'scheme': name, 'universe_width': width, 'round': rnd, 'profile': profile}
        core.note_case(case)
        det.seed_case(seed, PROPERTY, 'universe', name, width, rnd)
        r['states'] += 1
        try:
            scheme = L.SSEScheme(sse.finalize_cfg(name, cfg, db))
            key = scheme.KeyGen()
            edb = scheme.EDBSetup(key, db)
            r['transitions'] += 2
        except Exception as e:
            r.count('setup-raises (C01\'s subject, skipped here)')
            continue
        r.count('keyword-universes')
        bad = 0
        for w in universe:
            if w in db:
                continue
            r['evaluations'] += 1
            r['nontrivial'] += 1
            r['transitions'] += 2
            try:
                got = scheme.Search(edb, scheme.TokenGen(key, w)).get_result_list()
                n = len(got)
            except Exception as e:
                r.v(PROPERTY, name, 'search-raises', 'universe:%s:%s' % (core.exc_site(e), type(e).__name__), dict(case, keyword=w), 'empty result, no exception', core.exc_text(e))
                bad += 1
                if bad >= 3:
                    break
                continue
            if n != 0:
                r.v(PROPERTY, name, 'nonempty', 'absent-keyword-of-the-same-length/universe-%d' % width, dict(case, keyword=w), 'empty result', got)
                r.outcome('nonempty-in-universe')
                bad += 1
                if bad >= 3:
                    break
        r.count('universe-absent-keywords', len(universe) - len(db))
        if not bad:
            r.outcome('empty/universe-%d' % width)
    r.sample({'scheme': name, 'keyword_universe': 'all %d-byte keywords' % width, 'setups': rounds})


def run_case(r, seed, name, label, cfg, profile, kwlen, relation, only=None, cache=None):
    kwlen = min(kwlen, sse.kw_limit(name, cfg))
    case = {'scheme': name, 'label': label, 'cfg': cfg, 'profile': profile, 'kwlen': kwlen, 'relation': relation}
    core.note_case(case)
    db, cfg2, g = sse.build_db(seed, name, label, cfg, profile, kwlen, relation)
    absent = domains.absent_keywords(db, sse.kw_limit(name, cfg), g)
    det.seed_case(seed, PROPERTY, name, label, tuple(profile), kwlen, relation)
    L = sse.loader(name)
    r['states'] += 1
    try:
        scheme = sse.shared_scheme(cache, L, cfg2) if cache is not None else L.SSEScheme(cfg2)
        key = scheme.KeyGen()
        edb = scheme.EDBSetup(key, db)
        r['transitions'] += 2
    except Exception as e:
        r.count('setup-raises (C01\'s subject, skipped here)')
        return
    # a second database with other keywords (and partly the same identifiers) encrypted under the SAME key by the same scheme
    # object: its keywords are absent from the first index and vice versa
    try:
        other, _c, _g = sse.build_db(seed + 7919, name, label, cfg, profile, kwlen, relation)
        other = {w: ids for w, ids in other.items() if w not in db}
        if other and sse.finalize_cfg(name, cfg, other) == cfg2:
            edb_other = scheme.EDBSetup(key, other)
            r['transitions'] += 1
            for w in list(db)[:3]:
                r['evaluations'] += 1
                r.count('other-db-same-key')
                got = scheme.Search(edb_other, scheme.TokenGen(key, w)).get_result_list()
                if len(got) != 0:
                    r.v(PROPERTY, name, 'nonempty', 'keyword-of-another-database-under-the-same-key', dict(case, absent_kind='other-db', keyword=w),
                        'empty result', got)
            absent = absent + [('other-db', w) for w in list(other)[:3] if len(w) <= sse.kw_limit(name, cfg)]
    except Exception as e:
        r.v(PROPERTY, name, 'search-raises', 'other-db:%s:%s' % (core.exc_site(e), type(e).__name__), case, 'second setup under the same key works', core.exc_text(e))
    for tag, w in absent:
        if only is not None and w != only:
            continue
        r['evaluations'] += 1
        r.count(tag)
        if tag not in ('random', 'maxlen', 'single'):
            r['nontrivial'] += 1
        c = dict(case, absent_kind=tag, keyword=w)
        try:
            res = scheme.Search(edb, scheme.TokenGen(key, w))
            got = res.get_result_list()
            r['transitions'] += 2
        except Exception as e:
            r.v(PROPERTY, name, 'search-raises', '%s:%s' % (core.exc_site(e), type(e).__name__), c,
                'empty result, no exception', core.exc_text(e))
            r.outcome('raises')
            continue
        try:
            n = len(got)
        except Exception:
            n = -1
        if n != 0:
            stored = set(x for ids in db.values() for x in ids)
            kind = 'returns-stored-identifiers' if any(x in stored for x in list(got)) else 'returns-garbage'
            if tag == 'lead-nul-stored':
                kind += '/nul+stored-keyword'
            r.v(PROPERTY, name, 'nonempty', kind, c, 'empty result', got)
            r.outcome(kind)
        else:
            r.outcome('empty/' + tag)
    if r['states'] % 53 == 1:
        r.sample({'scheme': name, 'cfg_point': label, 'profile': profile, 'stored': list(db)[:3], 'absent': [(t, w) for t, w in absent[:6]]})


def run_unit(p, tier, seed):
    r = core.Result()
    if p.get('kind') == 'universe':
        run_universe(r, seed, p['scheme'], p['width'], p['rounds'])
        det.restore()
        return r
    if p.get('kind') == 'histories':
        run_histories(r, seed, p['scheme'], p['depth'])
        det.restore()
        return r
    name, label, cfg = p['scheme'], p['label'], p['cfg']
    cache = {}
    for i, (profile, kwlen, relation) in enumerate(case_list(name, label, cfg, tier)[p['lo']:p['hi']]):
        n0 = len(r['violations'])
        run_case(r, seed, name, label, cfg, profile, kwlen, relation, cache=cache)
        for v in r['violations'][n0:]:
            v['case']['unit'] = core.enc({'tier': tier, 'lo': p['lo'], 'index': i})
    det.restore()
    return r


def replay(case, seed):
    if 'universe_width' in case:
        r = core.Result()
        run_universe(r, seed, case['scheme'], case['universe_width'], case['round'] + 1, only_round=case['round'])
        return [v for v in r['violations'] if core.dec(v['case']).get('keyword') == case.get('keyword')] or r['violations']
    if 'history' in case:
        r = core.Result()
        run_histories(r, seed, case['scheme'], len(case['history']), only=(list(case['history']), case['second_setup_after_first_search']))
        return r['violations']
    u = case.get('unit')
    if u:
        full = run_unit({'scheme': case['scheme'], 'label': case['label'], 'cfg': case['cfg'], 'lo': u['lo'], 'hi': u['lo'] + u['index'] + 1}, u['tier'], seed)
        return [v for v in full['violations'] if core.dec(v['case']).get('profile') == case['profile'] and core.dec(v['case']).get('keyword') == case.get('keyword')]
    r = core.Result()
    run_case(r, seed, case['scheme'], case['label'], case['cfg'], case['profile'], case['kwlen'], case['relation'], only=case.get('keyword'))
    return r['violations']

# a subset of the units is executed again in other environments (child interpreters): see core.run_variants
ENV_VARIANTS = [{'name': 'python-O', 'flags': ['-O']}, {'name': 'home-unwritable', 'env': {'VERIF_HOME_UNWRITABLE': '1'}}]

def variant_units(tier, seed, name):
    pred = lambda uid, p: uid.endswith('/base/0') and p.get('kind') is None
    return [u for u in units('quick', seed) if pred(u[0], u[1])]

