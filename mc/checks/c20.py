"""C20 - PickledDict and DBMDict against a dict model (engine E2)."""
import os, shutil, itertools
from mc import core, det, xstate

PROPERTY = 'C20'
ENGINE = 'E2 explicit-state BFS to fixpoint over the real persistent dictionaries (canonical state = ordered items + closed flag) + all histories up to depth k without dedup'
LEVEL = 'model_checking'
DIRECTED_ADDITIONS = 'sync / close while the OS accepts only part of the write (file-size limit), PickledDict under a relative path with the working directory elsewhere between open and sync/close, from_dict independence, memoryview in the refused family, one scripted scale history per class (KiB values, hundreds of keys, six reopen / sync points)'      # members added during the seeded-change campaign (DESIGN 7); counted under their own vacuity counters


KEYS = [b'k1', b'k2', b'\x00', b'']
VALS = {'v1': b'one', 'v2': b'', 'v3': bytearray(b'\x03\x00'), 'str': 'text', 'int': 5, 'none': None, 'list': [b'x'], 'mview': memoryview(b'mv')}
GOOD = ('v1', 'v2', 'v3')


def describe(tier):
    d = _describe(tier)
    d['rule'] = d['rule'] + ' Directed additions: ' + DIRECTED_ADDITIONS + '.'
    return d


def _describe(tier):
    nk = 3 if tier == 'quick' else 4
    return {
        'rule': 'state = history; canon = (ordered tuple of model items, closed flag). BFS to fixpoint over a universe of %d keys and 3 '
                'storable values (bytes, empty bytes, bytearray): every event of the alphabet is applied to every reachable canonical state. '
                'Alphabet: d[k]=v for v in {bytes, empty bytes, bytearray, str, int, None, list}; d[k], d.get(k), d.get(k, default), del d[k], '
                'k in d for every key of the universe; len, iteration, clear, sync, close, close+open (PickledDict), create over the existing path '
                '(PickledDict), open of a missing path. Oracle per step: observation equals the insertion-ordered dict model (DBMDict: '
                'iteration compared as a sorted list); non-bytes values are refused and change nothing; after close every operation raises '
                'ValueError (ill-typed writes: any exception); after close+open the contents (and for PickledDict the order) are those at the time '
                'of closing; create on an existing file raises FileExistsError, open on a missing file FileNotFoundError. Plus every history of '
                'length <= %d over a reduced alphabet without deduplication, and from_dict(d) for every sub-dictionary d followed by every kind of '
                'mutation of d. DBMDict is explored inside one open session (close is terminal) as the property restricts it. '
                'non-trivial = state-changing transition.' % (nk, 4 if tier == 'quick' else 5),
        'bounds': '%d keys x 3 values BFS fixpoint; DFS depth %d' % (nk, 4 if tier == 'quick' else 5),
        'assumptions': ['only dbm.dumb exists in this image: DBMDict cannot be reopened (its own existence check refuses), which is the part the property excludes',
                        'equal canon => equal futures: the classes keep no state besides the mapping and the closed marker (guarded by the undeduplicated DFS)'],
        'must_be_nonzero': ['bfs-configs', 'dfs-histories', 'after-close', 'reopen', 'refused-values', 'from_dict', 'scale-histories', 'short-write-returned'],
    }


def units(tier, seed):
    nk = 3 if tier == 'quick' else 4
    us = []
    for cls in ('PickledDict', 'DBMDict'):
        us.append(('bfs/%s' % cls, {'kind': 'bfs', 'cls': cls, 'nk': nk if cls == 'PickledDict' else 3}))
        us.append(('dfs/%s' % cls, {'kind': 'dfs', 'cls': cls}))
        us.append(('fromdict/%s' % cls, {'kind': 'fromdict', 'cls': cls}))
        us.append(('scale/%s' % cls, {'kind': 'scale', 'cls': cls}))
    # the operating system accepts only part of what sync / close writes (file-size limit: the same answer as a full disk or a quota)
    us.append(('short-write/PickledDict', {'kind': 'short-write', 'cls': 'PickledDict'}))
    # the dictionary named by a RELATIVE path, the process' working directory somewhere else whenever it is not opening or creating
    us.append(('dfs-relative/PickledDict', {'kind': 'dfs', 'cls': 'PickledDict', 'relative': True}))
    us.append(('bfs-relative/PickledDict', {'kind': 'bfs', 'cls': 'PickledDict', 'nk': 2, 'relative': True}))
    return us


class Sut:
    __slots__ = ('d', 'model', 'closed', 'dir', 'path')


class DictSystem:
    def __init__(self, clsname, nk=3, reduced=False, relative=False):
        import data_persistence.persistent_dict as pd
        self.relative = relative
        self.clsname = clsname
        self.cls = getattr(pd, clsname)
        self.pickled = clsname == 'PickledDict'
        self.keys = KEYS[:nk]
        self.home = det.workdir('c20')
        self.away = os.path.join(self.home, 'away')
        os.makedirs(self.away, exist_ok=True)
        self.counter = 0
        evs = []
        if reduced:
            k1, k2 = self.keys[0], self.keys[1]
            evs = [('set', k1, 'v1'), ('set', k2, 'v3'), ('set', k1, 'v2'), ('set', k1, 'str'), ('getitem', k1), ('get', k2), ('getd', k1),
                   ('del', k1), ('del', k2), ('in', k1), ('len',), ('iter',), ('clear',), ('sync',), ('close',)]
            if self.pickled:
                evs += [('reopen',), ('create-existing',)]
        else:
            for k in self.keys:
                for v in VALS:
                    evs.append(('set', k, v))
            for k in self.keys + [b'missing']:
                evs += [('getitem', k), ('get', k), ('getd', k), ('del', k), ('in', k)]
            evs += [('len',), ('iter',), ('clear',), ('sync',), ('close',), ('open-missing',)]
            if self.pickled:
                evs += [('reopen',), ('create-existing',)]
        self._alphabet = evs
        self.dfs_any_event = True

    def fresh(self):
        s = Sut()
        self.counter += 1
        s.dir = os.path.join(self.home, 'h%d' % self.counter)
        os.mkdir(s.dir)
        s.path = os.path.join(s.dir, 'd')
        if self.relative:
            s.path = 'd'
            os.chdir(s.dir)
        s.d = self.cls.create(s.path)
        if self.relative:
            os.chdir(self.away)
        s.model = {}
        s.closed = False
        return s

    def dispose(self, s):
        try:
            s.d.close()
        except Exception:
            pass
        shutil.rmtree(s.dir, ignore_errors=True)

    def events(self, s):
        if s.closed and not self.pickled:
            return [e for e in self._alphabet if e[0] != 'reopen']
        return self._alphabet

    def canon(self, s):
        items = tuple((k, bytes(v), type(v).__name__) for k, v in s.model.items())
        if not self.pickled:
            items = tuple(sorted(items))
        return (items, s.closed)

    def model_apply(self, s, ev):
        op = ev[0]
        m = s.model
        if op == 'reopen':
            s.closed = False
            return ('ok', None)
        if op == 'close':
            s.closed = True
            return ('ok', None)
        if op == 'create-existing':
            return ('raise', FileExistsError)
        if op == 'open-missing':
            return ('raise', FileNotFoundError)
        if op == 'set':
            v = VALS[ev[2]]
            if not isinstance(v, (bytes, bytearray)):
                return ('raise', Exception if s.closed else TypeError)
            if s.closed:
                return ('raise', ValueError)
            m[ev[1]] = v
            return ('ok', None)
        if s.closed:
            return ('raise', ValueError)
        if op == 'getitem':
            return ('ok', m[ev[1]]) if ev[1] in m else ('raise', KeyError)
        if op == 'get':
            return ('ok', m.get(ev[1]))
        if op == 'getd':
            return ('ok', m.get(ev[1], b'default'))
        if op == 'del':
            if ev[1] in m:
                del m[ev[1]]
                return ('ok', None)
            return ('raise', KeyError)
        if op == 'in':
            return ('ok', ev[1] in m)
        if op == 'len':
            return ('ok', len(m))
        if op == 'iter':
            return ('ok', list(m) if self.pickled else sorted(m))
        if op == 'clear':
            m.clear()
            return ('ok', None)
        if op == 'sync':
            return ('ok', None)
        raise KeyError(op)

    def impl_apply(self, s, ev):
        op = ev[0]
        d = s.d
        if op == 'reopen':
            d.close()
            s.d = self.cls.open(s.path)
            return None
        if op == 'close':
            return d.close()
        if op == 'create-existing':
            o = self.cls.create(s.path)
            o.close()
            return 'created'
        if op == 'open-missing':
            o = self.cls.open(s.path + '-missing')
            o.close()
            return 'opened'
        if op == 'set':
            d[ev[1]] = VALS[ev[2]]
            return None
        if op == 'getitem':
            return d[ev[1]]
        if op == 'get':
            return d.get(ev[1])
        if op == 'getd':
            return d.get(ev[1], b'default')
        if op == 'del':
            del d[ev[1]]
            return None
        if op == 'in':
            return ev[1] in d
        if op == 'len':
            return len(d)
        if op == 'iter':
            return list(d) if self.pickled else sorted(d)
        if op == 'clear':
            return d.clear()
        if op == 'sync':
            return d.sync()
        raise KeyError(op)

    def full(self, s):
        """complete observation of an open dictionary through its API"""
        keys = list(s.d)
        if not self.pickled:
            keys = sorted(keys)
        return [(k, bytes(s.d[k])) for k in keys]

    def post_check(self, s, ev):
        """complete read-back against the model (and, for PickledDict, once more after close+open); the object is disposed afterwards"""
        probs = []
        if self.relative:
            os.chdir(s.dir)
        if s.closed:
            if self.pickled:
                try:
                    again = self.cls.open(s.path)
                    try:
                        got = [(k, bytes(again[k])) for k in again]
                    finally:
                        again.close()
                    want = [(k, bytes(v)) for k, v in s.model.items()]
                    if got != want:
                        probs.append(('contents-differ-after-close-and-open', ev[0], want, got))
                except Exception as e:
                    probs.append(('cannot-open-after-close', ev[0], 'dictionary opens', core.exc_text(e)))
            return probs
        want = [(k, bytes(v)) for k, v in (s.model.items() if self.pickled else sorted(s.model.items()))]
        try:
            got = self.full(s)
            if got != want:
                probs.append(('contents-differ-from-model-after', ev[0], want, got))
            n, keys = len(s.d), [k for k, _ in want]
            if n != len(want) or any((k in s.d) is False for k in keys):
                probs.append(('len-or-membership-differ-from-model-after', ev[0], (len(want), keys), n))
            if self.pickled:
                if self.relative:
                    os.chdir(self.away)
                s.d.close()
                if self.relative:
                    os.chdir(s.dir)
                again = self.cls.open(s.path)
                try:
                    got2 = [(k, bytes(again[k])) for k in again]
                finally:
                    again.close()
                if got2 != want:
                    probs.append(('contents-differ-after-close-and-open', ev[0], want, got2))
            else:
                s.d.sync()
                got3 = self.full(s)
                if got3 != want:
                    probs.append(('contents-differ-from-model-after-sync-following', ev[0], want, got3))
        except Exception as e:
            probs.append(('unreadable-after', ev[0], want, core.exc_text(e)))
        return probs

    def step(self, s, ev):
        probs = []
        was_closed = s.closed
        before = [(k, bytes(v)) for k, v in (s.model.items() if self.pickled else sorted(s.model.items()))]
        exp = self.model_apply(s, ev)
        if self.relative:
            # names are resolved where the dictionary lives; everything else happens with the working directory elsewhere
            if ev[0] == 'reopen':
                os.chdir(self.away)
                try:
                    s.d.close()
                except Exception:
                    pass
            os.chdir(s.dir if ev[0] in ('reopen', 'create-existing', 'open-missing') else self.away)
        try:
            got = ('ok', self.impl_apply(s, ev))
        except Exception as e:
            got = ('raise', e)
        opname = ev[0] + ('/closed' if was_closed and ev[0] not in ('close', 'reopen') else '')
        if ev[0] == 'set' and ev[2] not in GOOD:
            opname += '/non-bytes'
        if exp[0] == 'raise':
            if got[0] != 'raise':
                probs.append(('accepted-instead-of-raising', opname, exp[1].__name__, 'returned %r' % (got[1],)))
            elif not isinstance(got[1], exp[1]):
                probs.append(('wrong-exception', opname, exp[1].__name__, core.exc_text(got[1])))
        else:
            if got[0] == 'raise':
                probs.append(('raises', '%s:%s' % (opname, type(got[1]).__name__), repr(exp[1])[:80], core.exc_text(got[1])))
            elif exp[1] is not None or ev[0] in ('get', 'getitem'):
                if got[1] != exp[1]:
                    probs.append(('wrong-value', opname, exp[1], got[1]))
        # a refused operation changes nothing; after reopen the contents are those at close
        if not s.closed and (got[0] == 'raise' or ev[0] == 'reopen') and ev[0] not in ('open-missing',):
            now = [(k, bytes(v)) for k, v in (s.model.items() if self.pickled else sorted(s.model.items()))]
            try:
                full = self.full(s)
                if full != now:
                    probs.append(('changed-by-refused-operation' if ev[0] != 'reopen' else 'contents-differ-after-reopen', opname, now, full))
            except Exception as e:
                probs.append(('unreadable-after-' + ('reopen' if ev[0] == 'reopen' else 'refused-operation'), opname, now, core.exc_text(e)))
        stray = set(os.listdir(s.dir)) - ({'d'} if self.pickled else {'d.dat', 'd.dir', 'd.bak', 'd', 'd.db'})
        if stray:
            probs.append(('stray-file', opname, 'only the dictionary\'s own files', sorted(stray)))
        if self.relative and os.listdir(self.away):
            probs.append(('stray-file', opname + '/other-working-directory', 'nothing written into the working directory of the moment', sorted(os.listdir(self.away))))
            for fn in os.listdir(self.away):
                os.unlink(os.path.join(self.away, fn))
        return probs


def run_fromdict(r, seed, clsname):
    import data_persistence.persistent_dict as pd
    cls = getattr(pd, clsname)
    home = det.workdir('c20fd')
    keys = KEYS[:3]
    n = 0
    for k in range(0, 4):
        for sub in itertools.permutations(keys, k):
            for mutate in ('add', 'change', 'delete', 'clear', 'mutate-bytearray'):
                n += 1
                src = {key: (bytearray(b'ba') if i == 0 and mutate == 'mutate-bytearray' else b'v%d' % i) for i, key in enumerate(sub)}
                exp = [(key, bytes(v)) for key, v in src.items()]
                case = {'cls': clsname, 'from_dict': list(sub), 'then': mutate}
                core.note_case(case)
                d = os.path.join(home, 'f%d' % n)
                os.mkdir(d)
                r['evaluations'] += 1
                r['states'] += 1
                r['transitions'] += 3
                r.count('from_dict')
                try:
                    p = cls.from_dict(src, d + '/d')
                    if mutate == 'add':
                        src[b'new'] = b'x'
                    elif mutate == 'change' and sub:
                        src[sub[0]] = b'changed'
                    elif mutate == 'delete' and sub:
                        del src[sub[0]]
                    elif mutate == 'clear':
                        src.clear()
                    elif mutate == 'mutate-bytearray':
                        pass        # in-place mutation of a stored bytearray is aliasing of a value, not of the dict: not demanded
                    got = [(key, bytes(p[key])) for key in (list(p) if clsname == 'PickledDict' else sorted(p))]
                    want = exp if clsname == 'PickledDict' else sorted(exp)
                    if got != want:
                        r.v(PROPERTY, clsname, 'from_dict-not-independent', mutate, case, want, got)
                    if clsname == 'PickledDict':
                        p.close()
                        q = cls.open(d + '/d')
                        got2 = [(key, bytes(q[key])) for key in q]
                        if got2 != exp:
                            r.v(PROPERTY, clsname, 'from_dict-lost-after-reopen', mutate, case, exp, got2)
                        q.close()
                        try:
                            cls.from_dict({}, d + '/d')
                            r.v(PROPERTY, clsname, 'accepted-instead-of-raising', 'from_dict-over-existing', case, 'FileExistsError', 'created')
                        except FileExistsError:
                            pass
                    else:
                        p.close()
                    r['nontrivial'] += 1
                except Exception as e:
                    r.v(PROPERTY, clsname, 'from_dict-raises', type(e).__name__, case, 'dictionary', core.exc_text(e))
                shutil.rmtree(d, ignore_errors=True)
    r.outcome('from_dict-ok/' + clsname)
    r.sample({'cls': clsname, 'from_dict': 'every ordered sub-dictionary of 3 keys x {add, change, delete, clear} mutation of the source'})
    shutil.rmtree(home, ignore_errors=True)


def run_scale(r, seed, clsname):
    """values of several KiB, hundreds of keys, several close/open cycles: one scripted history with a complete comparison against
    the dict model at every checkpoint (the exhaustive units above use 3-4 keys and values of a few bytes)"""
    import data_persistence.persistent_dict as pd
    cls = getattr(pd, clsname)
    pickled = clsname == 'PickledDict'
    home = det.workdir('c20scale')
    g = det.rng(seed, 'c20-scale', clsname)
    path = os.path.join(home, 'd')
    model = {}
    d = cls.create(path)
    step = [0]

    def check(label):
        step[0] += 1
        r['evaluations'] += 1
        r['states'] += 1
        r['transitions'] += len(model) + 3
        r['nontrivial'] += 1
        case = {'cls': clsname, 'scale_checkpoint': label}
        core.note_case(case)
        try:
            keys = list(d)
            want = list(model)
            if (keys != want) if pickled else (sorted(keys) != sorted(want)):
                r.v(PROPERTY, clsname, 'scale-contents-differ', label + '/keys', case, '%d keys as in the model' % len(want), '%d keys' % len(keys))
                return
            if len(d) != len(model):
                r.v(PROPERTY, clsname, 'scale-contents-differ', label + '/len', case, len(model), len(d))
            bad = [k for k in model if bytes(d[k]) != model[k]]
            if bad:
                r.v(PROPERTY, clsname, 'scale-contents-differ', label + '/values', case, 'values as in the model', '%d differ, e.g. key %r: %d bytes instead of %d' % (len(bad), bad[0], len(d[bad[0]]), len(model[bad[0]])))
            if b'absent-key' in d or d.get(b'absent-key', b'dflt') != b'dflt':
                r.v(PROPERTY, clsname, 'scale-contents-differ', label + '/absent', case, 'absent', 'present')
        except Exception as e:
            r.v(PROPERTY, clsname, 'scale-raises', label + ':' + type(e).__name__, case, 'observations as the model', core.exc_text(e))

    def reopen(label):
        nonlocal d
        if not pickled:
            d.sync()                  # DBMDict: one open session is what the property covers; sync is its durability point
            check(label + '/after-sync')
            return
        d.close()
        d = cls.open(path)
        r.count('scale-reopens')
        check(label + '/after-reopen')
    try:
        for i in range(40):
            k, v = b'k%03d' % i, g.randbytes(4096)
            d[k] = v; model[k] = v
        check('40x4KiB')
        reopen('40x4KiB')
        big = g.randbytes(100 * 1024)
        d[b'big'] = big; model[b'big'] = big
        for i in range(300):
            k, v = b't%03d' % i, b'%d' % i
            d[k] = v; model[k] = v
        check('100KiB+300')
        for i in range(0, 300, 3):
            del d[b't%03d' % i]; del model[b't%03d' % i]
        check('deleted-every-third')
        reopen('deleted-every-third')
        for cyc in range(4):
            for i in range(10):
                k, v = b'c%d-%d' % (cyc, i), g.randbytes(700 + 100 * cyc)
                d[k] = v; model[k] = v
            for i in range(5):
                k = b'k%03d' % (cyc * 5 + i)
                del d[k]; del model[k]
            d[b'big'] = model[b'big'] = g.randbytes(70 * 1024 + cyc)
            check('cycle-%d' % cyc)
            reopen('cycle-%d' % cyc)
        d.clear(); model.clear()
        check('cleared')
        reopen('cleared')
        d.close()
        r.count('scale-histories')
        r.outcome('scale-ok/' + clsname)
    except Exception as e:
        r.v(PROPERTY, clsname, 'scale-raises', 'history:' + type(e).__name__, {'cls': clsname, 'scale_checkpoint': 'step %d' % step[0]}, 'history completes', core.exc_text(e))
        try:
            d.close()
        except Exception:
            pass
    r.sample({'cls': clsname, 'scale_history': '40 values of 4 KiB, one of 100 KiB, 300 small keys, deletions, 6 close/open (PickledDict) or sync (DBMDict) points'}, limit=1)
    shutil.rmtree(home, ignore_errors=True)


def run_short_write(r, seed, clsname, only=None):
    """sync / close while the OS refuses to let the file grow beyond a limit (RLIMIT_FSIZE, soft, put back afterwards; Python
    ignores SIGXFSZ, so the write fails with EFBIG or is accepted in part).  Demanded: a sync / close that RETURNS has stored the
    contents - opening the file gives exactly them; a sync / close that raises is the environment's refusal, loud, and nothing is
    demanded of the file then."""
    import resource, data_persistence.persistent_dict as pd
    cls = getattr(pd, clsname)
    home = det.workdir('c20short')
    g = det.rng(seed, 'c20-short', clsname)
    soft0, hard0 = resource.getrlimit(resource.RLIMIT_FSIZE)
    n = 0
    for limit in (4096, 65536):
        for total in (limit // 2, limit - 300, limit + 1, 2 * limit, 4 * limit + 17):
            for op in ('sync', 'close'):
                n += 1
                if only is not None and only != [limit, total, op]:
                    continue
                case = {'cls': clsname, 'file_size_limit': limit, 'payload_bytes': total, 'op': op}
                core.note_case(case)
                path = os.path.join(home, 'd%d' % n)
                model = {}
                d = cls.create(path)
                left = total
                i = 0
                while left > 0:
                    v = g.randbytes(min(left, 1500))
                    d[b'k%04d' % i] = v
                    model[b'k%04d' % i] = v
                    left -= len(v)
                    i += 1
                r['evaluations'] += 1
                r['states'] += 1
                r['transitions'] += i + 2
                r['nontrivial'] += 1
                resource.setrlimit(resource.RLIMIT_FSIZE, (limit, hard0))
                try:
                    try:
                        getattr(d, op)()
                        returned = True
                    except OSError:
                        returned = False
                    except Exception as e:
                        returned = False
                        r.count('short-write-other-exception:' + type(e).__name__)
                finally:
                    resource.setrlimit(resource.RLIMIT_FSIZE, (soft0, hard0))
                if not returned:
                    r.count('short-write-refused-loudly (nothing demanded of the file)')
                    r.outcome('short-write/raises')
                    try:
                        d.close()
                    except Exception:
                        pass
                    continue
                r.count('short-write-returned')
                try:
                    if op == 'sync':
                        import shutil as _sh
                        _sh.copyfile(path, path + '.copy')
                        again = cls.open(path + '.copy')
                    else:
                        again = cls.open(path)
                    try:
                        got = {k: bytes(again[k]) for k in again}
                    finally:
                        again.close()
                    if got != model:
                        r.v(PROPERTY, clsname, 'contents-differ-after-%s-and-open' % op, 'partly-accepted-write', case, '%d keys as at the %s' % (len(model), op), '%d keys' % len(got))
                    else:
                        r.outcome('short-write/stored')
                except Exception as e:
                    r.v(PROPERTY, clsname, 'cannot-open-after-%s' % op, 'partly-accepted-write', case, 'a %s that returned has stored the dictionary' % op, core.exc_text(e))
                try:
                    d.close()
                except Exception:
                    pass
    shutil.rmtree(home, ignore_errors=True)


def run_unit(p, tier, seed):
    r = core.Result()
    clsname = p['cls']
    if p['kind'] == 'short-write':
        run_short_write(r, seed, clsname)
        return r
    if p['kind'] == 'scale':
        run_scale(r, seed, clsname)
        return r
    if p['kind'] == 'fromdict':
        run_fromdict(r, seed, clsname)
        return r

    def on_problem(hist, ev, prob):
        r.v(PROPERTY, clsname, prob[0], prob[1] + ('/relative-path' if p.get('relative') else ''),
            dict({'cls': clsname, 'history': [list(e) for e in hist], 'event': list(ev), 'engine': p['kind']}, **({'relative': True} if p.get('relative') else {})),
            prob[2], prob[3])
        r.outcome(prob[0])

    if p['kind'] == 'bfs':
        system = DictSystem(clsname, p['nk'], relative=bool(p.get('relative')))
        st, seen = xstate.bfs(system, on_problem, max_states=50000)
        r['states'] += st.states
        r['transitions'] += st.transitions
        r['evaluations'] += st.transitions
        r['nontrivial'] += st.rebuilds
        r['traces'] += st.rebuilds
        r.count('bfs-configs')
        r.count('after-close', sum(1 for c in seen if c[1]))
        r.count('reopen', st.states if system.pickled else 1)
        r.count('refused-values', st.states * 4 * len(system.keys))
        if st.capped:
            r['caps'].append('C20 BFS cap hit for %s' % clsname)
        r.outcome('bfs-fixpoint/%s/states=%d' % (clsname, st.states))
        longest = max(seen.values(), key=len)
        r.sample({'cls': clsname, 'keys': system.keys, 'states': st.states, 'transitions': st.transitions, 'alphabet': len(system._alphabet),
                  'a_deepest_history': [list(e) for e in longest]})
    else:
        system = DictSystem(clsname, 3, reduced=True, relative=bool(p.get('relative')))
        depth = 4 if tier == 'quick' else 5
        if clsname == 'DBMDict':
            depth -= 1
        st = xstate.dfs_all(system, system._alphabet, depth, on_problem)
        r['transitions'] += st.transitions
        r['evaluations'] += st.histories
        r['traces'] += st.histories
        r['nontrivial'] += st.histories
        r.count('dfs-histories', st.histories)
        r.outcome('dfs-complete/%s/depth=%d' % (clsname, depth))
        r.sample({'cls': clsname, 'dfs_depth': depth, 'histories': st.histories, 'alphabet': [list(e) for e in system._alphabet]}, limit=1)
    os.chdir(core.VERIF)
    shutil.rmtree(system.home, ignore_errors=True)
    return r


def replay(case, seed):
    r = core.Result()
    if 'from_dict' in case:
        run_fromdict(r, seed, case['cls'])
        return r['violations']
    if 'file_size_limit' in case:
        run_short_write(r, seed, case['cls'], only=[case['file_size_limit'], case['payload_bytes'], case['op']])
        return r['violations']
    if 'scale_checkpoint' in case:
        run_scale(r, seed, case['cls'])
        return r['violations']
    system = DictSystem(case['cls'], 4, relative=bool(case.get('relative')))
    s = system.fresh()
    for ev in case['history']:
        system.step(s, tuple(ev))
    ev = tuple(case['event'])
    for prob in system.step(s, ev) + (system.post_check(s, ev) if case.get('relative') else []):
        r.v(PROPERTY, case['cls'], prob[0], prob[1] + ('/relative-path' if case.get('relative') else ''), case, prob[2], prob[3])
    system.dispose(s)
    os.chdir(core.VERIF)
    shutil.rmtree(system.home, ignore_errors=True)
    return r['violations']

# a subset of the units is executed again in other environments (child interpreters): see core.run_variants
ENV_VARIANTS = [{'name': 'python-O', 'flags': ['-O']}]

def variant_units(tier, seed, name):
    pred = lambda uid, p: p.get('kind') == 'dfs'
    return [u for u in units('quick', seed) if pred(u[0], u[1])]

