"""C17 - byte-level encodings round-trip: id blocks, splits, integers, XOR, hex database (engine E1)."""
import itertools, json
from mc import core, det, domains

PROPERTY = 'C17'
ENGINE = 'E1 bounded-exhaustive enumeration of (identifier size, capacity, list length, block size) and of all compositions / widths / values in small boxes'
LEVEL = 'model_checking'
DIRECTED_ADDITIONS = 'XOR operands chosen by their result, one-byte operands exhaustively, mixed-length identifier lists, posting lists as tuple / generator / iterator, composed vs decomposed Unicode keywords'      # members added during the seeded-change campaign (DESIGN 7); counted under their own vacuity counters



def describe(tier):
    d = _describe(tier)
    d['rule'] = d['rule'] + ' Directed additions: ' + DIRECTED_ADDITIONS + '.'
    return d


def _describe(tier):
    return {
        'rule': 'blocks: case = (identifier size, capacity, list length, block size); %s; block sizes {default, cap*size, +1, +size-1, 2*cap*size}; '
                'identifiers are distinct, never all-zero, and include awkward members (leading zero bytes, trailing zero bytes, 0x00..01, 0x01 00..); '
                'oracle: parse(partition(ids)) == ids by identifier size, and by entry count whenever block_size // capacity == size; '
                '|blocks| == ceil(n/cap); equal block lengths == block size; block_size < cap*size raises ValueError. '
                'splits: EVERY composition of every length <= %d (and DRBG compositions up to 300): concat(split) == x, piece lengths match; every '
                'length vector whose sum is off by -1/+1 raises ValueError. ints: all widths 0..40 x values {0,1,2^(8k)-1,2^(8k),2^(8k)+1,...}: '
                'int_from_bytes(int_to_bytes(x,w)) == x, minimal width when omitted, too-small width raises OverflowError. xor: involution '
                'for equal lengths 0..64; add_leading_zeros. JSON->bytes->{hex,int,utf8,raw} for hex identifiers of every length 1..20 in both '
                'cases. non-trivial = list length > 0 / non-empty string.'
                % ('sizes/capacities {1,2,3,7,8,40}/{1,2,3,7,8,64,70} x lengths {0,1,cap-1,cap,cap+1,2cap,2cap+1,300}' if tier == 'quick'
                   else 'ALL sizes 1..40 x capacities 1..70 x lengths 0..300 in steps covering every residue mod capacity (0..2cap+1, then boundary multiples up to 300)',
                   9 if tier == 'quick' else 12),
        'bounds': 'see rule',
        'assumptions': ['identifier bytes are DRBG values apart from the awkward members'],
        'must_be_nonzero': ['blocks-roundtrip', 'parse-by-count', 'too-small-block-refused', 'compositions', 'bad-sum-refused', 'int-roundtrip', 'hex-db', 'hex-db-mixed-lengths', 'hex-db-iterables'],
    }


def block_lengths(cap, tier):
    if tier == 'quick':
        return sorted({0, 1, cap - 1, cap, cap + 1, 2 * cap, 2 * cap + 1, 300} - {-1})
    s = set(range(0, min(2 * cap + 2, 301)))
    s.update({3 * cap, 3 * cap + 1, 4 * cap - 1, 299, 300, (300 // cap) * cap, (300 // cap) * cap - 1})
    return sorted(x for x in s if 0 <= x <= 300)


def units(tier, seed):
    us = []
    sizes = [1, 2, 3, 7, 8, 40] if tier == 'quick' else list(range(1, 41))
    caps = [1, 2, 3, 7, 8, 64, 70] if tier == 'quick' else list(range(1, 71))
    for size in sizes:
        step = len(caps) if tier == 'quick' else 14
        for i in range(0, len(caps), step):
            us.append(('blocks/%d/%d' % (size, caps[i]), {'kind': 'blocks', 'size': size, 'caps': caps[i:i + step]}))
    nmax = 9 if tier == 'quick' else 12
    for n in range(0, nmax + 1):
        us.append(('split/%d' % n, {'kind': 'split', 'n': n}))
    us.append(('split-long', {'kind': 'splitlong'}))
    us.append(('ints', {'kind': 'ints'}))
    us.append(('xor', {'kind': 'xor'}))
    us.append(('hexdb', {'kind': 'hexdb'}))
    return us


def run_blocks(r, seed, size, caps, tier):
    from toolkit import database_utils as du
    g = det.rng(seed, 'c17-ids', size)
    pool = domains.make_ids(min(300, 255 if size == 1 else 300), size, g)
    for cap in caps:
        for n in block_lengths(cap, tier):
            if n > len(pool):
                continue
            ids = pool[:n]
            for bs in sorted({0, cap * size, cap * size + 1, cap * size + size - 1, 2 * cap * size}):
                case = {'identifier_size': size, 'capacity': cap, 'list_length': n, 'block_size': bs}
                core.note_case(case)
                r['evaluations'] += 1
                r['states'] += 1
                r['transitions'] += 2
                if n:
                    r['nontrivial'] += 1
                try:
                    blocks = list(du.partition_identifiers_to_blocks(ids, cap, size, bs))
                    back = []
                    for b in blocks:
                        back += du.parse_identifiers_from_block_given_identifier_size(b, size)
                except Exception as e:
                    r.v(PROPERTY, 'database_utils', 'raises', '%s:%s' % (core.exc_site(e), type(e).__name__), case, 'round trip', core.exc_text(e))
                    continue
                eff = bs or cap * size
                if back != ids:
                    r.v(PROPERTY, 'database_utils', 'roundtrip', 'parse-by-size', case, 'the %d identifiers' % n,
                        '%d identifiers, first difference at %s' % (len(back), next((i for i, (a, b) in enumerate(zip(back, ids)) if a != b), min(len(back), len(ids)))))
                else:
                    r.count('blocks-roundtrip')
                if len(blocks) != -(-n // cap):
                    r.v(PROPERTY, 'database_utils', 'block-count', 'count', case, -(-n // cap), len(blocks))
                if any(len(b) != eff for b in blocks):
                    r.v(PROPERTY, 'database_utils', 'block-length', 'length', case, eff, sorted({len(b) for b in blocks}))
                if eff // cap == size:
                    back2 = []
                    for b in blocks:
                        back2 += du.parse_identifiers_from_block_given_entry_count_in_one_block(b, cap)
                    r['transitions'] += 1
                    r.count('parse-by-count')
                    if back2 != ids:
                        r.v(PROPERTY, 'database_utils', 'roundtrip', 'parse-by-count', case, 'the %d identifiers' % n, '%d identifiers' % len(back2))
            if cap * size > 1:
                for bs in sorted({1, cap * size - 1} - {0}):
                    case = {'identifier_size': size, 'capacity': cap, 'list_length': n, 'block_size': bs}
                    r['evaluations'] += 1
                    r['transitions'] += 1
                    try:
                        list(du.partition_identifiers_to_blocks(ids, cap, size, bs))
                        r.v(PROPERTY, 'database_utils', 'contract', 'too-small-block-accepted', case, 'ValueError', 'accepted')
                    except ValueError:
                        r.count('too-small-block-refused')
                    except Exception as e:
                        r.v(PROPERTY, 'database_utils', 'contract', 'wrong-exception', case, 'ValueError', core.exc_text(e))
    r.outcome('blocks-ok')
    r.sample({'identifier_size': size, 'capacities': caps[:5], 'list_lengths': block_lengths(caps[0], tier)[:8]})


def run_unit(p, tier, seed):
    from toolkit import bytes_utils as bu
    from toolkit import database_utils as du
    r = core.Result()
    kind = p['kind']
    if kind == 'blocks':
        run_blocks(r, seed, p['size'], p['caps'], tier)
    elif kind == 'split':
        n = p['n']
        g = det.rng(seed, 'c17-split', n)
        x = g.randbytes(n)
        comps = list(domains.compositions(n)) if n else [[]]
        # zero-length pieces are legal length vectors too
        extra = []
        for c in comps[:40]:
            for pos in range(len(c) + 1):
                extra.append(c[:pos] + [0] + c[pos:])
        for c in comps + extra:
            case = {'length': n, 'slices': c}
            core.note_case(case)
            r['evaluations'] += 1
            r['states'] += 1
            r['transitions'] += 1
            r.count('compositions')
            if n:
                r['nontrivial'] += 1
            try:
                parts = bu.split_bytes_given_slice_len(x, c)
            except Exception as e:
                r.v(PROPERTY, 'bytes_utils', 'split-raises', '%s:%s' % (core.exc_site(e), type(e).__name__), case, 'pieces', core.exc_text(e))
                continue
            if 0 in c:
                # trailing zero-length pieces may or may not be materialised; what is returned must still be right
                if b''.join(parts) != x or [len(q) for q in parts] != c[:len(parts)]:
                    r.v(PROPERTY, 'bytes_utils', 'split', 'zero-length-piece', case, c, [len(q) for q in parts])
                continue
            if b''.join(parts) != x:
                r.v(PROPERTY, 'bytes_utils', 'split', 'concat', case, x, b''.join(parts))
            if [len(q) for q in parts] != c:
                r.v(PROPERTY, 'bytes_utils', 'split', 'piece-lengths', case, c, [len(q) for q in parts])
        for c in comps:
            for bad in ([v + (1 if i == 0 else 0) for i, v in enumerate(c)] if c else [1], (c[:-1] + [c[-1] - 1]) if c and c[-1] > 0 else None, c + [1]):
                if bad is None:
                    continue
                r['evaluations'] += 1
                r['transitions'] += 1
                try:
                    bu.split_bytes_given_slice_len(x, bad)
                    r.v(PROPERTY, 'bytes_utils', 'contract', 'bad-sum-accepted', {'length': n, 'slices': bad}, 'ValueError', 'accepted')
                except ValueError:
                    r.count('bad-sum-refused')
                except Exception as e:
                    r.v(PROPERTY, 'bytes_utils', 'contract', 'wrong-exception', {'length': n, 'slices': bad}, 'ValueError', core.exc_text(e))
        r.outcome('split-ok')
        r.sample({'split': 'all %d compositions of %d' % (len(comps), n)})
    elif kind == 'splitlong':
        g = det.rng(seed, 'c17-splitlong')
        for n in (10, 13, 64, 100, 255, 256, 300):
            for _ in range(40):
                c, left = [], n
                while left:
                    k = g.randrange(1, min(left, 40) + 1)
                    c.append(k); left -= k
                x = g.randbytes(n)
                r['evaluations'] += 1
                r['states'] += 1
                r['transitions'] += 1
                r['nontrivial'] += 1
                parts = bu.split_bytes_given_slice_len(x, c)
                if b''.join(parts) != x or [len(q) for q in parts] != c:
                    r.v(PROPERTY, 'bytes_utils', 'split', 'long', {'length': n, 'slices': c}, c, [len(q) for q in parts])
        r.outcome('split-long-ok')
        r.sample({'split': 'DRBG compositions of 10..300'})
    elif kind == 'ints':
        vals = {0, 1, 2, 127, 128, 255}
        for k in range(1, 41):
            vals.update({(1 << (8 * k)) - 1, 1 << (8 * k), (1 << (8 * k)) + 1, (1 << (8 * k - 1)), (1 << (8 * k - 1)) - 1})
        g = det.rng(seed, 'c17-ints')
        vals.update(g.getrandbits(g.randrange(1, 320)) for _ in range(200))
        for x in sorted(vals):
            need = (x.bit_length() + 7) // 8
            r['states'] += 1
            b = bu.int_to_bytes(x)
            r['evaluations'] += 1
            r['transitions'] += 2
            if len(b) != need or bu.int_from_bytes(b) != x:
                r.v(PROPERTY, 'bytes_utils', 'int', 'minimal-width', {'x': x}, (need, x), (len(b), bu.int_from_bytes(b)))
            for w in range(0, 42):
                case = {'x': x, 'width': w}
                r['evaluations'] += 1
                r['transitions'] += 1
                if x:
                    r['nontrivial'] += 1
                try:
                    b = bu.int_to_bytes(x, w)
                except OverflowError:
                    if w >= need:
                        r.v(PROPERTY, 'bytes_utils', 'int', 'wide-enough-refused', case, 'bytes', 'OverflowError')
                    continue
                except Exception as e:
                    r.v(PROPERTY, 'bytes_utils', 'int', 'wrong-exception', case, 'bytes or OverflowError', core.exc_text(e)); continue
                if w < need:
                    r.v(PROPERTY, 'bytes_utils', 'int', 'too-small-width-accepted', case, 'OverflowError', b.hex()); continue
                if len(b) != w or bu.int_from_bytes(b) != x:
                    r.v(PROPERTY, 'bytes_utils', 'int', 'roundtrip', case, (w, x), (len(b), bu.int_from_bytes(b)))
                else:
                    r.count('int-roundtrip')
        for b in (b'', b'\x00', b'\x00\x01', b'\xff' * 40, b'\x01' + b'\x00' * 39):
            r['evaluations'] += 1
            if bu.int_from_bytes(b) != int.from_bytes(b, 'big'):
                r.v(PROPERTY, 'bytes_utils', 'int', 'from-bytes', {'bytes': b}, int.from_bytes(b, 'big'), bu.int_from_bytes(b))
        r.outcome('ints-ok')
        r.sample({'ints': 'widths 0..41 x %d boundary/DRBG values' % len(vals)})
    elif kind == 'xor':
        g = det.rng(seed, 'c17-xor')
        for n in range(0, 65):
            for _ in range(6):
                a, b = g.randbytes(n), g.randbytes(n)
                r['evaluations'] += 1
                r['states'] += 1
                r['transitions'] += 3
                if n:
                    r['nontrivial'] += 1
                x = bu.bytes_xor(a, b)
                if len(x) != n or x != bytes(p ^ q for p, q in zip(a, b)):
                    r.v(PROPERTY, 'bytes_utils', 'xor', 'value', {'n': n, 'a': a, 'b': b}, 'bytewise xor', x)
                if bu.bytes_xor(x, b) != a or bu.bytes_xor(a, a) != bytes(n):
                    r.v(PROPERTY, 'bytes_utils', 'xor', 'involution', {'n': n, 'a': a, 'b': b}, 'a', 'differs')
            # operands chosen by the RESULT they must give: leading / trailing zero bytes, a single set bit at either end, all ones
            if n:
                wanted = {bytes(n), b'\xff' * n, bytes(n - 1) + b'\x01', b'\x80' + bytes(n - 1), b'\x01' + bytes(n - 1), bytes(n - 1) + b'\x80'}
                for k in range(1, n):
                    wanted.add(bytes(k) + g.randbytes(n - k - 1) + b'\x5a')          # k leading zero bytes
                    wanted.add(b'\xa5' + g.randbytes(n - k - 1) + bytes(k))          # k trailing zero bytes
                for want in sorted(wanted):
                    a = g.randbytes(n)
                    b = bytes(p ^ q for p, q in zip(a, want))
                    r['evaluations'] += 1
                    r['transitions'] += 1
                    x = bu.bytes_xor(a, b)
                    if x != want:
                        r.v(PROPERTY, 'bytes_utils', 'xor', 'value-structured-result', {'n': n, 'a': a, 'b': b}, want, x)
            if n == 1:
                for pa in range(256):
                    for pb in range(256):
                        r['evaluations'] += 1
                        if bu.bytes_xor(bytes([pa]), bytes([pb])) != bytes([pa ^ pb]):
                            r.v(PROPERTY, 'bytes_utils', 'xor', 'value-1-byte-exhaustive', {'a': pa, 'b': pb}, pa ^ pb, 'differs')
            # a shorter second operand masks a prefix only: the result keeps len(a) and xor-ing twice restores a
            for lb in sorted(x for x in {0, 1, n // 2, n - 1} if 0 <= x < n):
                a, b = g.randbytes(n), g.randbytes(lb)
                r['evaluations'] += 1
                r['transitions'] += 2
                try:
                    x = bu.bytes_xor(a, b)
                    if len(x) != n or x != bytes(p ^ q for p, q in zip(a, b)) + a[lb:]:
                        r.v(PROPERTY, 'bytes_utils', 'xor', 'shorter-mask-value', {'n': n, 'mask_length': lb}, 'prefix masked, length kept', x)
                    elif bu.bytes_xor(x, b) != a:
                        r.v(PROPERTY, 'bytes_utils', 'xor', 'shorter-mask-involution', {'n': n, 'mask_length': lb}, 'a', 'differs')
                except Exception as e:
                    r.v(PROPERTY, 'bytes_utils', 'xor', 'shorter-mask-raises', {'n': n, 'mask_length': lb}, 'bytes', core.exc_text(e))
            for w in (0, n - 1, n, n + 1, n + 7):
                if w < 0:
                    continue
                a = g.randbytes(n)
                z = bu.add_leading_zeros(a, w)
                r['evaluations'] += 1
                r['transitions'] += 1
                if z != bytes(max(w - n, 0)) + a:
                    r.v(PROPERTY, 'bytes_utils', 'add-leading-zeros', 'value', {'n': n, 'width': w}, bytes(max(w - n, 0)) + a, z)
        r.outcome('xor-ok')
        r.sample({'xor': 'equal lengths 0..64, 6 DRBG pairs each'})
    elif kind == 'hexdb':
        g = det.rng(seed, 'c17-hexdb')
        kws = ['China', 'Github', 'Chen', '中文', 'a', 'sp ace', 'été', 'caf\u00e9', 'cafe\u0301', '\u212b', '\u00c5', '\u1112\u1161\u11ab', '\ud55c']     # composed and decomposed forms are different keywords
        for n in range(1, 21):
            for upper in (False, True):
                ids = []
                for _ in range(3):
                    h = g.randbytes(n).hex()
                    ids.append(h.upper() if upper else h)
                ids.append(('00' * (n - 1) + '0a').upper() if upper else '00' * (n - 1) + '0a')
                db = {kw: list(ids) for kw in kws}
                db = json.loads(json.dumps(db))
                case = {'identifier_bytes': n, 'upper': upper}
                core.note_case(case)
                r['evaluations'] += 1
                r['states'] += 1
                r['transitions'] += 1
                r['nontrivial'] += 1
                try:
                    bdb = du.convert_database_keyword_to_bytes(db)
                except Exception as e:
                    r.v(PROPERTY, 'database_utils', 'hexdb-raises', '%s:%s' % (core.exc_site(e), type(e).__name__), case, 'bytes database', core.exc_text(e))
                    continue
                r.count('hex-db')
                if list(bdb) != [k.encode('utf-8') for k in db]:
                    r.v(PROPERTY, 'database_utils', 'hexdb', 'keywords', case, [k.encode('utf-8') for k in db], list(bdb))
                for kw in db:
                    got = bdb.get(kw.encode('utf-8'), [])
                    if [bu.BytesConverter.convert_bytes(x, 'hex') for x in got] != [h.lower() for h in db[kw]]:
                        r.v(PROPERTY, 'bytes_utils', 'hexdb', 'hex-format', case, [h.lower() for h in db[kw]], got)
                    if [bu.BytesConverter.convert_bytes(x, 'int') for x in got] != [int(h, 16) for h in db[kw]]:
                        r.v(PROPERTY, 'bytes_utils', 'hexdb', 'int-format', case, 'ints', 'differ')
                    if [bu.BytesConverter.convert_bytes(x, 'raw') for x in got] != [bytes.fromhex(h) for h in db[kw]]:
                        r.v(PROPERTY, 'bytes_utils', 'hexdb', 'raw-format', case, 'bytes', 'differ')
                    if any(len(x) != n for x in got):
                        r.v(PROPERTY, 'database_utils', 'hexdb', 'identifier-length', case, n, sorted({len(x) for x in got}))
                    if bu.BytesConverter.convert_bytes(kw.encode('utf-8'), 'utf8') != kw:
                        r.v(PROPERTY, 'bytes_utils', 'hexdb', 'utf8-format', case, kw, 'differs')
        # posting lists handed over as other iterables (tuple, generator, iterator): the same bytes database
        ids_ = [g.randbytes(8).hex() for _ in range(5)]
        for how, mk in (('tuple', tuple), ('generator', lambda l: (x for x in l)), ('iterator', iter), ('list', list)):
            dbv = {'w': mk(ids_), 'second': mk(ids_[::-1])}
            case = {'posting_lists_as': how}
            r['evaluations'] += 1
            r['transitions'] += 1
            try:
                bdb = du.convert_database_keyword_to_bytes(dbv)
                got = {k: list(v) for k, v in bdb.items()}
            except Exception as e:
                r.count('posting-list-type-refused:' + how)
                continue
            r.count('hex-db-iterables')
            if got != {b'w': [bytes.fromhex(h) for h in ids_], b'second': [bytes.fromhex(h) for h in ids_[::-1]]}:
                r.v(PROPERTY, 'database_utils', 'hexdb', 'posting-lists-as-' + how, case, 'the same bytes database as from lists', {k: [x.hex() for x in v] for k, v in got.items()})
        # identifiers of DIFFERENT lengths in one list: every sequence of 1..4 lengths over {1,2,3,4,6,16} bytes
        import itertools as _it
        for k in range(1, 5):
            for lens_ in _it.product((1, 2, 3, 4, 6, 16), repeat=k):
                ids = [g.randbytes(n).hex() for n in lens_]
                db = {'w': list(ids), 'second': list(reversed(ids))}
                case = {'identifier_bytes': list(lens_), 'mixed': True}
                core.note_case(case)
                r['evaluations'] += 1
                r['transitions'] += 1
                try:
                    bdb = du.convert_database_keyword_to_bytes(json.loads(json.dumps(db)))
                except Exception as e:
                    r.v(PROPERTY, 'database_utils', 'hexdb-raises', 'mixed:%s:%s' % (core.exc_site(e), type(e).__name__), case, 'bytes database', core.exc_text(e))
                    continue
                r.count('hex-db-mixed-lengths')
                for kw, hs in db.items():
                    if bdb.get(kw.encode('utf-8')) != [bytes.fromhex(h) for h in hs]:
                        r.v(PROPERTY, 'database_utils', 'hexdb', 'mixed-length-identifiers', case, hs, [x.hex() for x in bdb.get(kw.encode('utf-8'), [])])
                        break
        try:
            bu.BytesConverter.convert_bytes(b'x', 'base64')
            r.v(PROPERTY, 'bytes_utils', 'contract', 'unknown-format-accepted', {'format': 'base64'}, 'ValueError', 'accepted')
        except ValueError:
            pass
        r.outcome('hexdb-ok')
        r.sample({'hexdb': 'hex identifiers of 1..20 bytes, both cases, utf-8 keywords incl. non-ASCII'})
    det.restore()
    return r


def replay(case, seed):
    if 'capacity' in case:
        return run_unit({'kind': 'blocks', 'size': case['identifier_size'], 'caps': [case['capacity']]}, 'thorough', seed)['violations']
    if 'slices' in case:
        if case['length'] <= 12:
            return run_unit({'kind': 'split', 'n': case['length']}, 'quick', seed)['violations']
        return run_unit({'kind': 'splitlong'}, 'quick', seed)['violations']
    if 'x' in case or 'bytes' in case:
        return run_unit({'kind': 'ints'}, 'quick', seed)['violations']
    if 'identifier_bytes' in case or 'format' in case:
        return run_unit({'kind': 'hexdb'}, 'quick', seed)['violations']
    return run_unit({'kind': 'xor'}, 'quick', seed)['violations']

# a subset of the units is executed again in other environments (child interpreters): see core.run_variants
ENV_VARIANTS = [{'name': 'python-O', 'flags': ['-O']}, {'name': 'locale-C', 'env': {'LC_ALL': 'C', 'LANG': 'C', 'PYTHONUTF8': '0', 'PYTHONCOERCECLOCALE': '0'}}]

def variant_units(tier, seed, name):
    us = units(tier, seed)
    if name == 'locale-C':
        return [u for u in us if u[1].get('kind') == 'hexdb']
    return [u for u in us if u[1].get('kind') in ('split', 'splitlong', 'hexdb', 'xor', 'ints')] + [u for u in us if u[1].get('kind') == 'blocks'][:4]

