"""C12 - overlapping connections to one service are serialised and cannot roll state back (engine E3)."""
import os, pickle, json, itertools, collections, asyncio
from mc import core, det, vnet, fe

PROPERTY = 'C12'
ENGINE = 'E3 stateless exploration of ALL delivery/timer schedules of 2 (deviation-bounded: 3) scripted raw connections against the real handler, ServicesManager and websockets on the virtual network'
LEVEL = 'model_checking'
DIRECTED_ADDITIONS = 'a first connection that stays for 70 virtual seconds with two queued behind it, distinct request paths, pending-cleanup variants, hold / give-up / take-over triples (up to four connections per sid)'      # members added during the seeded-change campaign (DESIGN 7); counted under their own vacuity counters

SCRIPTS = {'C': ['config'], 'CU': ['config', 'upload'], 'U': ['upload'], 'S': ['search'], 'CUS': ['config', 'upload', 'search'], 'X': []}
# scripts used only in the triples below: 'hold' keeps the connection open until nothing else can happen (a client that is slow to
# leave); 'giveup' closes as soon as the server's wait notice arrives, i.e. WHILE waiting for the earlier connection
SCRIPTS.update({'H': ['hold'], 'CH': ['config', 'hold'], 'CUH': ['config', 'upload', 'hold'], 'G': ['giveup']})
# 'holdlong': the first connection stays for 70 virtual seconds, well past every periodic timer of the server and of the websocket
# layer (keep-alive pings at 20 s), with the others queued behind it
SCRIPTS.update({'L': ['holdlong'], 'CL': ['config', 'holdlong']})
LONG_HOLD_TRIPLES = [('L', 'CU', 'S'), ('CL', 'U', 'S'), ('L', 'C', 'C')]
PAIR_SCRIPTS = ['C', 'CU', 'U', 'S', 'CUS', 'X']
HOLD_TRIPLES = [('CH', 'G', 'C'), ('H', 'G', 'C'), ('CH', 'G', 'U'), ('CUH', 'G', 'U'), ('CUH', 'G', 'S'), ('H', 'G', 'S'), ('CH', 'C', 'G'), ('H', 'X', 'CU'),
                # the FIRST connection leaves, the second takes over and stays while the first one's delayed cleanup comes due, then a third
                ('C', 'CH', 'C'), ('X', 'CH', 'U'), ('C', 'CUH', 'U'), ('CU', 'H', 'S'), ('X', 'H', 'C')]
REQ = {'config': 'config', 'upload': 'upload_edb', 'search': 'token'}
REPLY = {'config': 'config', 'upload_edb': 'upload', 'result': 'search'}
TRIPLES = [('C', 'S', 'S'), ('C', 'C', 'C'), ('CU', 'U', 'S'), ('C', 'U', 'S'), ('CU', 'CU', 'S'), ('C', 'CU', 'U'), ('CU', 'X', 'U'), ('CU', 'X', 'S'), ('C', 'X', 'C')]
VTIME_HORIZON = 90.0
LIMIT2 = {'quick': 3000, 'thorough': 40000}
BOUND3 = {'quick': 2, 'thorough': 4}
LIMIT3 = {'quick': 1500, 'thorough': 60000}


def describe(tier):
    d = _describe(tier)
    d['rule'] = d['rule'] + ' Directed additions: ' + DIRECTED_ADDITIONS + '.'
    return d


def _describe(tier):
    return {
        'rule': 'execution = (initial durable state s0 in {0,1,2} prepared by a sequential prefix, k scripted raw connections on one sid, schedule); '
                'scripts from {[config],[config,upload],[upload],[search],[config,upload,search],[] (open, then close without a request)} each ending in close (the triple-hold units add: hold = stay open until nothing else can happen; giveup = close on the wait notice, i.e. while waiting), every connection with its own '
                'distinguishable configuration and index (and, in the pair-paths units, its own request path / query string; in the *-pending units the connection of the sequential prefix has just closed and its delayed cleanup is still pending, i.e. up to four connections per sid); a scripted client sends its next request as soon as it has its reply. Choice points = which '
                'connection\'s next server-bound frame (init, request, close frame, EOF) is delivered next and whether the server\'s 1 s cleanup timer '
                'fires first; per-connection FIFO; client-bound frames and HTTP upgrades are delivered eagerly. ALL schedules are enumerated for '
                'every ordered pair of scripts x s0 (cap %d per pair, reported if hit); 3-connection triples with at most %d deviation(s) from the '
                'default schedule. After the scripts all timers are drained and a probe connection reads the state and searches. Oracles: O1 no '
                'reply is written to connection j while the server-side protocol of a connection whose init was processed earlier is OPEN; O2 probe '
                'state >= every acknowledged state; O3 at most one config and one index are ever acknowledged, the files on disk are those and the '
                'probe search answers from the acknowledged index; O4 a connection whose init is processed while an earlier one is OPEN gets a control '
                'notice before any reply; O5 when all timers have fired every pending request was answered or its connection closed. '
                'non-trivial = schedule with >= 1 deviation from the default order.' % (LIMIT2[tier], BOUND3[tier]),
        'bounds': '2 connections: all schedules; 3 connections: deviation bound %d' % BOUND3[tier],
        'assumptions': ['timer rule: only timers armed with <= 2 s compete with deliveries; longer ones (keep-alive 20 s, close/open time-outs 10 s) fire only when nothing else is enabled',
                        'in-memory transport: per-connection FIFO, no partial frames; raw clients do not offer permessage-deflate so that the harness can read reply frames at the instant the server writes them',
                        'the order in which connections are "opened" is the order in which the server processed their init messages'],
        'must_be_nonzero': ['schedules', 'control-notices', 'overlaps', 'probe-searches'],
    }


def units(tier, seed):
    us = []
    names = list(PAIR_SCRIPTS)
    for s0 in (0, 1, 2):
        for a, b in itertools.product(names, repeat=2):
            us.append(('pair/s%d/%s/%s' % (s0, a, b), {'s0': s0, 'scripts': [a, b], 'bound': None, 'limit': LIMIT2[tier]}))
    for s0 in (0, 1, 2):
        for a, b in itertools.product(names, repeat=2):
            if a == 'X' and b == 'X':
                continue
            us.append(('pair-paths/s%d/%s/%s' % (s0, a, b), {'s0': s0, 'scripts': [a, b], 'bound': BOUND3[tier], 'limit': LIMIT2[tier], 'paths': 'distinct'}))
    for s0 in (0, 1, 2):
        for t in HOLD_TRIPLES:
            us.append(('triple-hold/s%d/%s' % (s0, '-'.join(t)), {'s0': s0, 'scripts': list(t), 'bound': BOUND3[tier], 'limit': LIMIT3[tier], 'pending': s0 > 0}))
    for s0 in (0, 1):
        for t in LONG_HOLD_TRIPLES:
            us.append(('triple-hold/long/s%d/%s' % (s0, '-'.join(t)), {'s0': s0, 'scripts': list(t), 'bound': BOUND3[tier], 'limit': LIMIT3[tier]}))
    for s0 in (1, 2):
        for t in TRIPLES:
            us.append(('triple-pending/s%d/%s' % (s0, '-'.join(t)), {'s0': s0, 'scripts': list(t), 'bound': BOUND3[tier], 'limit': LIMIT3[tier], 'pending': True}))
        for a, b in itertools.product(names, repeat=2):
            if a == 'X' and b == 'X':
                continue
            us.append(('pair-pending/s%d/%s/%s' % (s0, a, b), {'s0': s0, 'scripts': [a, b], 'bound': BOUND3[tier] + 1, 'limit': LIMIT2[tier], 'pending': True}))
    for s0 in (0, 1, 2):
        for t in TRIPLES:
            us.append(('triple/s%d/%s' % (s0, '-'.join(t)), {'s0': s0, 'scripts': list(t), 'bound': BOUND3[tier], 'limit': LIMIT3[tier]}))
    return us


_fx = {}


def fixture(seed):
    if seed not in _fx:
        _fx[seed] = fe.Fixture(seed)
    return _fx[seed]


def execute(fx, s0, scripts, prefix, max_steps=60000, paths='same', pending=False):
    """one execution; returns (trace, observation dict)"""
    m = fe.mods()
    ws_mod = m['websockets']
    from websockets.exceptions import ConnectionClosed
    w = fe.World(choices=prefix, eager=True)
    loop = w.loop
    obs = {'log': [], 'problems': [], 'stuck': False}
    try:
        w.start_server()
        sid = fe.new_sid('c12')
        w.sids.append(sid)
        # ---- sequential prefix to reach the initial durable state
        if s0 >= 1:
            p0 = fe.RawConn(w, sid).open()
            fe.settle(loop)
            p0.send('config', pickle.dumps(fx.cfgs[0]))
            fe.settle(loop)
            if s0 == 2:
                p0.send('upload_edb', fx.edbs[0])
                fe.settle(loop)
            p0.close()
            # pending: the predecessor's delayed cleanup (1 s after its close) has NOT run yet when the scripted connections
            # arrive - its timer is one more schedulable event of the exploration
            fe.settle(loop, timers=not pending)
        k = len(scripts)
        conn_no = {}              # connection number n -> client index j
        server_tr = {}            # j -> server-side transport
        init_order = []           # client indices in the order the server processed their init
        concurrent_at_init = {}
        control_before_reply = {}
        got_reply = {}
        log = obs['log']

        def on_write(tr, data):
            if not tr.name.startswith('s'):
                return
            j = conn_no.get(int(tr.name[1:]))
            if j is None:
                return
            frames = fe.parse_server_frames(data)
            if not frames:
                return
            for op, payload in frames:
                if op != 2:
                    continue
                try:
                    msg = pickle.loads(payload)
                except Exception:
                    continue
                typ = msg.get('type')
                earlier_open = [i for i in init_order if i != j and server_tr[i]._protocol.state.name == 'OPEN']
                if typ == 'init':
                    init_order.append(j)
                    concurrent_at_init[j] = list(earlier_open)
                elif typ == 'control':
                    if not got_reply.get(j):
                        control_before_reply[j] = True
                elif typ in REPLY:
                    before_me = [i for i in init_order[:init_order.index(j)] if server_tr[i]._protocol.state.name == 'OPEN'] if j in init_order else []
                    if before_me:
                        obs['problems'].append(('reply-while-earlier-connection-open', REPLY[typ], 'connection %d gets no reply while %s is open' % (j, before_me),
                                                'reply of type %s written to connection %d' % (typ, j)))
                    if concurrent_at_init.get(j) and not control_before_reply.get(j):
                        obs['problems'].append(('no-control-notice', REPLY[typ], 'control notice before the first reply to a connection that arrived during another',
                                                'none'))
                    got_reply[j] = True

        async def client(j, script):
            try:
                # 'distinct': every connection asks for its own resource path / query string - the service is named by the sid in the
                # messages, never by the URI
                uri = 'ws://h:1' if paths == 'same' else 'ws://h:1' + ['/', '/?client=%d' % j, '/sse/%d' % j][j % 3]
                ws = await ws_mod.connect(uri, max_size=None, compression=None)
            except Exception as e:
                log.append((j, 'connect-failed', type(e).__name__))
                return
            n = int(ws.transport.name[1:])
            conn_no[n] = j
            server_tr[j] = ws.transport.peer
            try:
                await ws.send(pickle.dumps({'type': 'init', 'sid': sid}))
                while True:
                    msg = pickle.loads(await ws.recv())
                    if msg['type'] == 'init':
                        log.append((j, 'init', pickle.loads(msg['content']).get('state')))
                        break
                    log.append((j, msg['type']))
                    if msg['type'] == 'control' and script == ['giveup']:
                        await ws.close()                      # told to wait: this client does not
                        log.append((j, 'gave-up-while-waiting'))
                        return
                for req in script:
                    if req == 'giveup':
                        continue
                    if req == 'holdlong':
                        await asyncio.sleep(70.0)
                        continue
                    if req == 'hold':
                        # longer than vnet's SHORT timer rule: it expires only when nothing else is enabled, i.e. this client
                        # leaves last
                        await asyncio.sleep(5.0)
                        continue
                    if req == 'config':
                        payload, extra = pickle.dumps(fx.cfgs[j]), {}
                    elif req == 'upload':
                        payload, extra = fx.edbs[j], {}
                    else:
                        payload, extra = fx.tok, {'token_digest': fx.tok_digest}
                    d = {'type': REQ[req], 'sid': sid, 'content': payload}
                    d.update(extra)
                    await ws.send(pickle.dumps(d))
                    while True:
                        msg = pickle.loads(await ws.recv())
                        if msg['type'] == 'control':
                            log.append((j, 'control'))
                            continue
                        if msg['type'] == 'result':
                            try:
                                c = pickle.loads(msg['content'])
                            except Exception:
                                c = None
                            if isinstance(c, dict) and c.get('ok') is False:
                                log.append((j, req, 'refused'))
                            else:
                                log.append((j, req, 'result', fx.decode_result(msg['content'])))
                        else:
                            c = pickle.loads(msg['content'])
                            log.append((j, req, 'ok' if c.get('ok') else 'refused'))
                        break
                await ws.close()
                log.append((j, 'closed-by-client'))
            except ConnectionClosed:
                log.append((j, 'closed-by-server'))

        loop.eager_all = False
        loop.on_write = on_write
        tasks = [loop.spawn(client(j, SCRIPTS[name]), 'harness') for j, name in enumerate(scripts, start=1)]
        try:
            loop.run_until(lambda: all(t.done() for t in tasks) or loop.time() > VTIME_HORIZON, max_steps)
        except (vnet.Deadlock, vnet.Horizon) as e:
            obs['stuck'] = type(e).__name__
        if not all(t.done() for t in tasks):
            obs['stuck'] = obs['stuck'] or 'virtual-time-horizon'
            pend = [j for j, t in enumerate(tasks, start=1) if not t.done()]
            obs['problems'].append(('stuck', 'connection-never-answered', 'every pending request answered or its connection closed once all timers fired',
                                    'connections %s still waiting after %.0f virtual seconds' % (pend, loop.time())))
        for t in tasks:
            if t.done() and not t.cancelled() and t.exception() is not None:
                obs['problems'].append(('harness-client-raised', type(t.exception()).__name__, 'script completes', repr(t.exception())))
        trace = list(loop.trace)
        # ---- drain and probe
        loop.on_write = None
        loop.eager_all = True
        for t in tasks:
            if not t.done():
                t.cancel()
        fe.settle(loop, timers=True)
        acked_cfg = [e[0] for e in log if len(e) >= 3 and e[1] == 'config' and e[2] == 'ok']
        acked_idx = [e[0] for e in log if len(e) >= 3 and e[1] == 'upload' and e[2] == 'ok']
        if s0 >= 1:
            acked_cfg = [0] + acked_cfg
        if s0 == 2:
            acked_idx = [0] + acked_idx
        acked_state = 2 if acked_idx else 1 if acked_cfg else 0
        obs['acked_state'] = acked_state
        obs['overlap'] = any(v for v in concurrent_at_init.values())
        obs['controls'] = sum(1 for e in log if e[1] == 'control')
        if len(acked_cfg) > 1:
            obs['problems'].append(('double-acknowledgement', 'config', 'at most one configuration ever acknowledged', 'acknowledged for connections %s' % acked_cfg))
        if len(acked_idx) > 1:
            obs['problems'].append(('double-acknowledgement', 'index', 'at most one index ever acknowledged', 'acknowledged for connections %s' % acked_idx))
        for e in log:
            if len(e) >= 4 and e[2] == 'result':
                ok = any(e[3] == list(fx.dbs[i][fx.kw]) for i in acked_idx)
                if not ok:
                    obs['problems'].append(('search-not-from-acknowledged-index', 'client-search', 'answer from an acknowledged index', e[3]))
        probe = fe.RawConn(w, sid).open()
        fe.settle(loop, timers=True)
        msgs = [x for x in probe.new_messages() if x.get('type') != 'control']
        if not msgs or msgs[0].get('type') != 'init':
            obs['probe_state'] = 'no-init-echo'
            obs['problems'].append(('probe-failed', 'no-init-echo/acked=%d' % acked_state, 'init echo', 'closed=%s' % probe.closed))
        else:
            ps = pickle.loads(msgs[0]['content']).get('state')
            obs['probe_state'] = ps
            if not isinstance(ps, int) or ps < acked_state:
                obs['problems'].append(('state-regressed', 'acked=%d/probe=%s' % (acked_state, ps), 'probe state >= %d' % acked_state, ps))
            files = w.server_files(sid)
            if acked_cfg:
                try:
                    oncfg = json.loads(files.get('config.json', b'null'))
                except Exception:
                    oncfg = None
                if oncfg != fx.cfgs[acked_cfg[0]]:
                    obs['problems'].append(('acknowledged-config-lost', 'disk', 'config of connection %d on disk' % acked_cfg[0],
                                            oncfg.get('salt') if isinstance(oncfg, dict) else oncfg))
            if acked_idx:
                if files.get('edb') != fx.edbs[acked_idx[0]]:
                    obs['problems'].append(('acknowledged-index-lost', 'disk', 'index of connection %d on disk' % acked_idx[0],
                                            'missing' if 'edb' not in files else 'different bytes'))
                if ps == 2:
                    probe.send('token', fx.tok, token_digest=fx.tok_digest)
                    fe.settle(loop, timers=True)
                    res = [x for x in probe.new_messages() if x.get('type') == 'result']
                    obs['probe_search'] = True
                    got = None
                    if res:
                        try:
                            got = fx.decode_result(res[0]['content'])
                        except Exception as e:
                            got = 'undecodable'
                    if got != list(fx.dbs[acked_idx[0]][fx.kw]):
                        obs['problems'].append(('acknowledged-index-not-searched', 'probe-search', list(fx.dbs[acked_idx[0]][fx.kw]), got))
        probe.close()
        fe.settle(loop, timers=True)
        return trace, obs
    finally:
        w.close()


def run_unit(p, tier, seed):
    r = core.Result()
    fx = fixture(seed)
    s0, scripts = p['s0'], p['scripts']
    best = {}
    outcomes = collections.Counter()

    def run(prefix):
        det.seed_case(seed, PROPERTY, s0, tuple(scripts))
        return execute(fx, s0, scripts, prefix, paths=p.get('paths', 'same'), pending=bool(p.get('pending')))

    def on_result(choices, trace, obs):
        r['evaluations'] += 1
        r['traces'] += 1
        r['transitions'] += len(trace)
        r.count('schedules')
        dev = sum(1 for c in choices if c)
        if dev:
            r['nontrivial'] += 1
        if obs.get('overlap'):
            r.count('overlaps')
        r.count('control-notices', obs.get('controls', 0))
        if obs.get('probe_search'):
            r.count('probe-searches')
        outcomes[(tuple(tuple(e[:3]) for e in obs['log']), obs.get('probe_state'))] += 1
        for prob in obs['problems']:
            sig = (prob[0], prob[1])
            rank = (dev, len(choices))
            if sig not in best or rank < best[sig][0]:
                best[sig] = (rank, choices, prob, [list(map(str, e)) for e in obs['log']], [t[2] for t in trace])

    n, per_dev, capped = vnet.explore(run, bound=p['bound'], limit=p['limit'], on_result=on_result)
    r['states'] += len(outcomes)
    if capped:
        r['caps'].append('C12 %s s0=%d: schedule cap %d hit (complete below deviation %s)' % (scripts, s0, p['limit'], min(per_dev) if per_dev else 0))
    for (kind, site), (rank, choices, prob, log, labels) in sorted(best.items(), key=lambda kv: kv[1][0]):
        r.v(PROPERTY, 'server', kind, site, dict({'s0': s0, 'scripts': scripts, 'schedule': list(choices), 'deviations': rank[0]}, **dict(({'paths': p['paths']} if p.get('paths') else {}), **({'pending': True} if p.get('pending') else {}))), prob[2], prob[3],
            detail='client log: %s\nchoice labels: %s' % (log, labels))
        r.outcome(kind)
    r.outcome('explored/%d-connections' % len(scripts))
    r.count('distinct-outcomes', len(outcomes))
    r.sample({'s0': s0, 'scripts': scripts, 'schedules': n, 'per_deviation_count': per_dev, 'distinct_outcomes': len(outcomes),
              'bound': p['bound'], 'capped': capped}, limit=1)
    det.restore()
    return r


def replay(case, seed):
    r = core.Result()
    fx = fixture(seed)
    det.seed_case(seed, PROPERTY, case['s0'], tuple(case['scripts']))
    trace, obs = execute(fx, case['s0'], case['scripts'], tuple(case['schedule']), paths=case.get('paths', 'same'), pending=bool(case.get('pending')))
    for prob in obs['problems']:
        r.v(PROPERTY, 'server', prob[0], prob[1], case, prob[2], prob[3])
    return r['violations']
