"""C19 - SPFLBArray against a list model, on disk and after reopen (engine E2)."""
import os, shutil, itertools
from mc import core, det, xstate

PROPERTY = 'C19'
ENGINE = 'E2 explicit-state BFS to fixpoint over the real SPFLBArray (canonical state = list contents + closed flag + cached chunk files + directory listing) + all histories up to depth k without dedup'
LEVEL = 'model_checking'
DIRECTED_ADDITIONS = 'relative array paths used from a working directory other than the one the library was imported in (child interpreter), non-perturbing read-back (cold-cache states), configurations with 12 and 70 chunk files, a full-size value ending in zero bytes, oversized values with a leading zero byte, generator / tuple slice values'      # members added during the seeded-change campaign (DESIGN 7); counted under their own vacuity counters



def configs(tier):
    out = []
    lens = [1, 2, 3] if tier == 'quick' else [1, 2, 3, 4]
    for n in lens:
        for size in ([1, 2] if tier == 'quick' else [1, 2, 3]):
            for per in range(1, n + 3):
                if tier == 'quick' and n == 3 and per == 1:
                    continue        # three chunk files (407 canonical states, ~3 min per configuration): thorough tier only
                out.append((n, size, per))
    return out


def dfs_configs(tier):
    base = [(5, 2, 2), (5, 1, 3), (4, 2, 4), (7, 1, 2), (23, 2, 2), (140, 2, 2)]      # 23/2: twelve chunk files (a two-digit chunk number); 140/2: seventy
    if tier != 'quick':
        base += [(5, 3, 1), (6, 2, 4), (7, 2, 3), (9, 1, 4), (40, 9, 7), (40, 9, 40), (40, 1, 42), (12, 9, 5)]
    return base


def describe(tier):
    d = _describe(tier)
    d['rule'] = d['rule'] + ' Directed additions: ' + DIRECTED_ADDITIONS + '.'
    return d


def _describe(tier):
    return {
        'rule': 'state = history; canon = (model list, closed flag, set of chunk ids whose file object is cached, directory listing). '
                'BFS to fixpoint for every configuration (array_len, item_size, items_per_file) with len in %s, item_size in %s, '
                'items_per_file 1..len+2: every event of the alphabet is applied to every reachable canonical state. Alphabet: a[i] and '
                'a[i]=v and del a[i] for every i in [-len-1, len]; v in {b"", 1 byte, item_size bytes, item_size+1 bytes (with and without a leading zero byte), bytearray, str, int, None}; '
                'slice read / delete / write for start, stop in {None,-len-1,-len,-1,0,1,len-1,len,len+1}, step in {None,1,2,-1,-2} (quick, len 3: {None,2,-1} and at most two chunk files); slice '
                'writes with value lists shorter / equal / longer than the slice, a bad (oversized or non-bytes) element at EVERY position j '
                '(including just beyond the slice), a non-iterable and a bytes object as the value list; clear, iteration, membership, len, '
                'sync, close, close+open, create over the existing path, from_list. Item values come from a 3-element domain {zero, X, Y}. '
                'Oracle per step: same value or an exception where the list model raises; after every failing operation a full read equals the '
                'model; directory listing is a subset of {_meta} + {_k : 0<=k<ceil(len/per_file)}; operations on a closed array raise. '
                'Plus every history of length <= %d over a reduced %d-event alphabet without deduplication (also on configurations up to '
                'len 7%s). non-trivial = state-changing transition.'
                % ('1..3' if tier == 'quick' else '1..4', '{1,2}' if tier == 'quick' else '{1,2,3}', 3 if tier == 'quick' else 4, 24,
                   '' if tier == 'quick' else ' and (40,9,k)'),
        'bounds': 'BFS fixpoint for len<=%d; DFS depth %d' % (3 if tier == 'quick' else 4, 3 if tier == 'quick' else 4),
        'assumptions': ['equal canon => equal futures: the only other implementation state is file positions (every access seeks first) and '
                        'buffered bytes that are read back through the same handle; the undeduplicated DFS is the guard against a too-coarse canon',
                        'which exception class a failing operation raises is not demanded (IndexError/ValueError/TypeError are all "raises")'],
        'must_be_nonzero': ['negative-index-read', 'slice-write-rollback', 'reopen', 'after-close', 'bfs-configs', 'dfs-histories'],
    }


def units(tier, seed):
    us = []
    for n, size, per in configs(tier):
        us.append(('bfs/%d-%d-%d' % (n, size, per), {'kind': 'bfs', 'n': n, 'size': size, 'per': per}))
    for n, size, per in configs(tier)[-6:] + dfs_configs(tier):
        us.append(('dfs/%d-%d-%d' % (n, size, per), {'kind': 'dfs', 'n': n, 'size': size, 'per': per}))
    us.append(('misc', {'kind': 'misc'}))
    return sorted(us, key=lambda u: -(u[1].get('n', 0) ** 2 * (1 if u[1]['kind'] == 'bfs' else 0.2)))


# ------------------------------------------------------------------ system under test + model
START_CWD = os.getcwd()


class Sut:
    __slots__ = ('arr', 'model', 'closed', 'dir', 'path', 'stray', 'must_rebuild')


class ArraySystem:
    def __init__(self, n, size, per, reduced=False, steps=(None, 1, 2, -1, -2)):
        self.steps = list(steps)
        from data_persistence.persistent_array import SPFLBArray
        self.cls = SPFLBArray
        self.n, self.size, self.per = n, size, per
        self.Z = b'\x00' * size
        self.X = b'\x00' * (size - 1) + b'\x07'
        # the full-size value: a5..a5, or (even items_per_file, size >= 2) 07 00..00 - a value that ENDS in zero bytes, so that the raw
        # bytes of two neighbouring items contain the all-zero item at a misaligned offset
        self.Y = b'\xa5' * size if (size < 2 or per % 2) else b'\x07' + b'\x00' * (size - 1)
        self.vals = {
            'empty': b'', 'one': b'\x07', 'full': self.Y, 'over': b'\x01' * (size + 1), 'overz': b'\x00' + self.Y,
            'bytearray': bytearray(self.Y), 'str': 'a' * size, 'int': 7, 'none': None, 'zero': self.Z,
        }
        self.allowed = {'a_meta'} | {'a_%d' % k for k in range(-(-n // per))}
        self.home = det.workdir('c19')
        # environment variant 'relative-paths': the array is named by a relative path and the working directory at creation and use
        # (the array's directory, unchanged for as long as the object is used) is not the one the library was imported in
        self.relative = bool(os.environ.get('VERIF_RELATIVE_PATHS'))
        self.counter = 0
        self._alphabet = self._make_alphabet(reduced)
        self._closed_alphabet = [e for e in self._alphabet if e[0] in ('get', 'set', 'del', 'sget', 'sdel', 'sset', 'clear', 'iter', 'in', 'len')
                                 and (e[0] not in ('sget', 'sdel', 'sset') or (e[1], e[2], e[3]) in ((None, None, None), (0, 1, None)))
                                 and (e[0] != 'sset' or e[4] in ('equal',))
                                 and (e[0] not in ('get', 'set', 'del') or e[1] in (0, -1))] + [('close',), ('reopen',), ('create-existing',), ('sync',)]

    # -- alphabet
    def _make_alphabet(self, reduced):
        n = self.n
        evs = []
        if reduced:
            evs += [('get', -1), ('get', 0), ('get', n - 1), ('get', n), ('set', 0, 'one'), ('set', -1, 'full'), ('set', n - 1, 'over'), ('set', 0, 'overz'),
                    ('set', -n, 'str'), ('sget', None, None, None), ('sget', None, None, -1), ('sset', None, None, None, 'equal'),
                    ('sset', None, None, 2, 'bad-over@1'), ('sset', 1, None, None, 'short'), ('sset', None, None, None, 'equal-gen'), ('sset', 1, None, 2, 'equal-tuple'), ('sset', None, None, -1, 'bad-type@0'),
                    ('sdel', None, None, None), ('sdel', -2, None, None), ('del', -1), ('del', 0), ('clear',), ('iter',), ('in', 'X'),
                    ('len',), ('close',), ('reopen',)]
            return evs
        idxs = list(range(-n - 1, n + 1))
        for i in idxs:
            evs.append(('get', i))
        for i in idxs:
            for vk in ('empty', 'one', 'full', 'over', 'overz', 'bytearray', 'str', 'int', 'none'):
                evs.append(('set', i, vk))
        for i in idxs:
            evs.append(('del', i))
        bounds = sorted({-n - 1, -n, -1, 0, 1, n - 1, n, n + 1})
        ss = [None] + bounds
        for start, stop, step in itertools.product(ss, ss, self.steps):
            evs.append(('sget', start, stop, step))
        for start, stop, step in itertools.product(ss, ss, self.steps):
            evs.append(('sdel', start, stop, step))
        for start, stop, step in itertools.product(ss, ss, self.steps):
            k = len(range(*slice(start, stop, step).indices(n)))
            variants = ['short', 'equal', 'long', 'not-iterable', 'bytes-as-list', 'bad-beyond', 'equal-gen', 'equal-tuple']
            for j in range(k):
                variants.append('bad-over@%d' % j)
                variants.append('bad-type@%d' % j)
            if k:
                variants.append('bad-overz@%d' % (k - 1))      # oversized by a LEADING ZERO byte: still oversized
            for v in variants:
                evs.append(('sset', start, stop, step, v))
        evs += [('clear',), ('iter',), ('in', 'Z'), ('in', 'X'), ('in', 'Y'), ('in', 'Q'), ('len',), ('sync',),
                ('close',), ('reopen',), ('create-existing',)]
        return evs

    def value_list(self, variant, k):
        if variant == 'short':
            return [self.Y] * max(k - 1, 0)
        if variant == 'equal':
            return [b'\x07'] * k
        if variant == 'long':
            return [self.Y] * (k + 1)
        if variant == 'equal-gen':                 # a one-shot iterable: the values can be walked through once only
            return (v for v in [self.Y if (i % 2) else b'\x07' for i in range(k)])
        if variant == 'equal-tuple':
            return tuple(self.Y if (i % 2) else b'\x07' for i in range(k))
        if variant == 'not-iterable':
            return 5
        if variant == 'bytes-as-list':
            return b'\x07' * max(k, 1)
        if variant == 'bad-beyond':
            return [b'\x07'] * k + [b'\x01' * (self.size + 1)]
        kind, j = variant.split('@')
        j = int(j)
        vals = [self.Y if (i % 2) else b'\x07' for i in range(k)]
        vals[j] = b'\x01' * (self.size + 1) if kind == 'bad-over' else (b'\x00' + self.Y) if kind == 'bad-overz' else 'a' * self.size
        return vals

    # -- life cycle
    def fresh(self):
        s = Sut()
        self.counter += 1
        s.dir = os.path.join(self.home, 'h%d' % self.counter)
        os.mkdir(s.dir)
        s.path = os.path.join(s.dir, 'a')
        if self.relative:
            os.chdir(s.dir)
            s.path = 'a'
        s.arr = self.cls.create(s.path, item_size=self.size, array_len=self.n, item_num_in_one_file=self.per)
        s.model = [self.Z] * self.n
        s.closed = False
        s.stray = frozenset()
        s.must_rebuild = False
        return s

    def dispose(self, s):
        try:
            s.arr.close()
        except Exception:
            pass
        if self.relative:
            os.chdir(self.home)
        shutil.rmtree(s.dir, ignore_errors=True)

    def events(self, s):
        return self._closed_alphabet if s.closed else self._alphabet

    def cached(self, s):
        try:
            u = s.arr._SPFLBArray__underlying_array
            files = u._SimpleMultiFilePersistentFixedLengthBytesArray__opened_files
            return frozenset(i for i, f in enumerate(files) if f is not None)
        except Exception:
            return frozenset()

    def canon(self, s):
        return (tuple(s.model), s.closed, self.cached(s), frozenset(os.listdir(s.dir)))

    def pad(self, v):
        return b'\x00' * (self.size - len(v)) + bytes(v)

    def good(self, v):
        return isinstance(v, (bytes, bytearray)) and len(v) <= self.size

    # -- model: returns ('ok', value) or ('raise', None) and mutates s.model
    def model_apply(self, s, ev):
        op = ev[0]
        n = self.n
        m = s.model
        if op == 'reopen':
            s.closed = False
            return ('ok', None)
        if op == 'close':
            s.closed = True
            return ('ok', None)
        if op == 'create-existing':
            return ('raise', None)
        if op == 'sync':
            return ('any', None) if s.closed else ('ok', None)      # sync is not among the property's operations: no demand after close
        if s.closed:
            return ('raise', None)
        if op == 'get':
            i = ev[1]
            return ('ok', m[i]) if -n <= i < n else ('raise', None)
        if op == 'set':
            i, v = ev[1], self.vals[ev[2]]
            if not (-n <= i < n) or not self.good(v):
                return ('raise', None)
            m[i] = self.pad(v)
            return ('ok', None)
        if op == 'del':
            i = ev[1]
            if not (-n <= i < n):
                return ('raise', None)
            m[i] = self.Z
            return ('ok', None)
        if op == 'sget':
            return ('ok', m[slice(ev[1], ev[2], ev[3])])
        if op == 'sdel':
            for j in range(*slice(ev[1], ev[2], ev[3]).indices(n)):
                m[j] = self.Z
            return ('ok', None)
        if op == 'sset':
            idx = list(range(*slice(ev[1], ev[2], ev[3]).indices(n)))
            vals = self.value_list(ev[4], len(idx))
            try:
                it = list(iter(vals))
            except TypeError:
                return ('raise', None)
            new = list(m)
            for j, v in zip(idx, it):
                if not self.good(v):
                    return ('raise', None)          # rolled back: model unchanged
                new[j] = self.pad(v)
            s.model = new
            return ('ok', None)
        if op == 'clear':
            s.model = [self.Z] * n
            return ('ok', None)
        if op == 'iter':
            return ('ok', list(m))
        if op == 'in':
            v = {'Z': self.Z, 'X': self.X, 'Y': self.Y, 'Q': b'\x51' * self.size}[ev[1]]
            return ('ok', v in m)
        if op == 'len':
            return ('ok', (n, self.size))
        raise KeyError(op)

    def impl_apply(self, s, ev):
        op = ev[0]
        a = s.arr
        if op == 'reopen':
            a.close()
            s.arr = self.cls.open(s.path)
            return None
        if op == 'close':
            return a.close()
        if op == 'create-existing':
            other = self.cls.create(s.path, item_size=self.size, array_len=self.n, item_num_in_one_file=self.per)
            other.close()
            return 'created'
        if op == 'sync':
            return a.sync()
        if op == 'get':
            return a[ev[1]]
        if op == 'set':
            a[ev[1]] = self.vals[ev[2]]
            return None
        if op == 'del':
            del a[ev[1]]
            return None
        if op == 'sget':
            return a[ev[1]:ev[2]:ev[3]]
        if op == 'sdel':
            del a[ev[1]:ev[2]:ev[3]]
            return None
        if op == 'sset':
            k = len(range(*slice(ev[1], ev[2], ev[3]).indices(self.n)))
            a[ev[1]:ev[2]:ev[3]] = self.value_list(ev[4], k)
            return None
        if op == 'clear':
            return a.clear()
        if op == 'iter':
            return list(a)
        if op == 'in':
            v = {'Z': self.Z, 'X': self.X, 'Y': self.Y, 'Q': b'\x51' * self.size}[ev[1]]
            return v in a
        if op == 'len':
            return (len(a), a.item_size)
        raise KeyError(op)

    def post_check(self, s, ev):
        """complete read-back (through the API, and once more after close+open) against the model; only called on an
        object that is about to be disposed, so perturbing its cache does not matter"""
        probs = []
        if s.closed:
            return probs
        if self.relative:
            os.chdir(s.dir)
        try:
            full = s.arr[:]
            if full != s.model:
                probs.append(('contents-differ-from-model-after', ev[0], s.model, full))
            else:
                s.arr.close()
                again = self.cls.open(s.path)
                try:
                    full = again[:]
                finally:
                    again.close()
                if full != s.model:
                    probs.append(('contents-differ-from-model-after-reopen-following', ev[0], s.model, full))
        except Exception as e:
            probs.append(('unreadable-after', ev[0], s.model, core.exc_text(e)))
        return probs

    def peek_full(self, s):
        """complete read through the API that leaves no trace: chunk files the read had to open are closed again and chunk
        files it had to create are removed, so the lazily built cache and the directory are exactly as before.  If the
        private cache cannot be reached the object is marked for rebuild instead."""
        if self.relative:
            os.chdir(s.dir)
        before_cached = self.cached(s)
        before_files = set(os.listdir(s.dir))
        full = s.arr[:]
        try:
            u = s.arr._SPFLBArray__underlying_array
            files = u._SimpleMultiFilePersistentFixedLengthBytesArray__opened_files
            for i, f in enumerate(files):
                if f is not None and i not in before_cached:
                    f.close()
                    files[i] = None
            for fn in set(os.listdir(s.dir)) - before_files:
                os.unlink(os.path.join(s.dir, fn))
        except Exception:
            s.must_rebuild = True
        return full

    def step(self, s, ev):
        probs = []
        was_closed = s.closed
        exp = self.model_apply(s, ev)
        if self.relative:
            os.chdir(s.dir)
        try:
            got = ('ok', self.impl_apply(s, ev))
        except Exception as e:
            got = ('raise', e)
        opname = ev[0] + ('/closed' if was_closed and ev[0] not in ('close', 'reopen') else '')
        if exp[0] == 'any':
            pass
        elif exp[0] == 'raise':
            if got[0] != 'raise':
                probs.append(('accepted-instead-of-raising', opname, 'an exception', 'returned %r' % (got[1],)))
        else:
            if got[0] == 'raise':
                probs.append(('raises', '%s:%s' % (opname, type(got[1]).__name__), repr(exp[1])[:80], core.exc_text(got[1])))
            elif exp[1] is not None and got[1] != exp[1]:
                probs.append(('wrong-value', opname, exp[1], got[1]))
        # no stray files, ever
        stray = frozenset(os.listdir(s.dir)) - self.allowed
        if stray - s.stray:          # reported at the operation that creates it
            probs.append(('stray-file', opname, sorted(self.allowed), sorted(stray)))
        s.stray = stray
        if self.relative and START_CWD != core.VERIF and not getattr(self, 'start_cwd_reported', False):
            elsewhere = sorted(os.listdir(START_CWD))
            if elsewhere:
                self.start_cwd_reported = True
                probs.append(('stray-file', opname + '/in-the-directory-the-library-was-imported-in', 'no file outside the array\'s directory', elsewhere[:6]))
        # after a failing operation the array is exactly as it was
        if got[0] == 'raise' and not s.closed and ev[0] != 'create-existing':
            try:
                full = self.peek_full(s)
                if full != s.model:
                    probs.append(('changed-by-failing-operation', opname, s.model, full))
            except Exception as e:
                probs.append(('unreadable-after-failing-operation', opname, s.model, core.exc_text(e)))
        # (contents after reopen are compared by post_check, on an object that is disposed afterwards: a read-back here would
        # open every chunk file and hide all states with a cold cache)
        return probs


def site_of(ev, prob):
    kind, site = prob[0], prob[1]
    extra = ''
    if ev[0] in ('get', 'set', 'del') and isinstance(ev[1], int):
        extra = '/neg' if ev[1] < 0 else '/nonneg'
    return kind, site + extra


def run_unit(p, tier, seed):
    r = core.Result()
    if p['kind'] == 'misc':
        run_misc(r, seed)
        return r
    n, size, per = p['n'], p['size'], p['per']
    cfg = {'array_len': n, 'item_size': size, 'items_per_file': per}

    def on_problem(hist, ev, prob):
        kind, site = site_of(ev, prob)
        r.v(PROPERTY, 'SPFLBArray', kind, site, {'config': cfg, 'history': [list(e) for e in hist], 'event': list(ev), 'engine': p['kind']},
            prob[2], prob[3])
        r.outcome(kind)

    if p['kind'] == 'bfs':
        system = ArraySystem(n, size, per, steps=((None, 2, -1) if (tier == 'quick' and n >= 3) else (None, 1, 2, -1, -2)))
        st, seen = xstate.bfs(system, on_problem, max_states=60000)
        r['states'] += st.states
        r['transitions'] += st.transitions
        r['evaluations'] += st.transitions
        r['nontrivial'] += st.rebuilds
        r['traces'] += st.rebuilds
        r.count('bfs-configs')
        evs = system._alphabet
        r.count('negative-index-read', sum(1 for e in evs if e[0] == 'get' and e[1] < 0) * st.states)
        r.count('slice-write-rollback', sum(1 for e in evs if e[0] == 'sset' and e[4].startswith('bad-')) * st.states)
        r.count('reopen', st.states)
        r.count('after-close', sum(1 for c in seen if c[1]))
        if st.capped:
            r['caps'].append('C19 BFS cap hit for %s' % (cfg,))
        r.outcome('bfs-fixpoint/states=%d' % st.states)
        longest = max(seen.values(), key=len)
        r.sample({'config': cfg, 'states': st.states, 'transitions': st.transitions, 'alphabet': len(evs), 'max_depth': st.max_depth,
                  'a_deepest_history': [list(e) for e in longest]})
        if system.relative:
            os.chdir(os.path.dirname(system.home))
        shutil.rmtree(system.home, ignore_errors=True)
    else:
        system = ArraySystem(n, size, per, reduced=True)
        system.dfs_any_event = True
        depth = 3 if tier == 'quick' else 4
        if n >= 12:
            depth = 3 if tier != 'quick' else 2
        if n >= 100:
            depth = 2 if tier != 'quick' else 1
        st = xstate.dfs_all(system, system._alphabet, depth, on_problem)
        r['transitions'] += st.transitions
        r['evaluations'] += st.histories
        r['traces'] += st.histories
        r['nontrivial'] += st.histories
        r.count('dfs-histories', st.histories)
        r.outcome('dfs-complete/depth=%d' % depth)
        r.sample({'config': cfg, 'dfs_depth': depth, 'histories': st.histories, 'alphabet': [list(e) for e in system._alphabet[:6]]}, limit=1)
        if system.relative:
            os.chdir(os.path.dirname(system.home))
        shutil.rmtree(system.home, ignore_errors=True)
    return r


def run_misc(r, seed):
    """from_list, create over an existing path, open of a missing path, context manager"""
    from data_persistence.persistent_array import SPFLBArray
    home = det.workdir('c19misc')
    g = det.rng(seed, 'c19-misc')
    k = 0
    for n in (0, 1, 2, 5, 7):
        for size in (1, 2, 3):
            for chunk in (1, 2, 3, 100):
                for given_len in (None, n, n + 2):
                    k += 1
                    items = [g.randbytes(g.randrange(0, size + 1)) for _ in range(n)]
                    if n and all(len(x) < size for x in items):
                        items[0] = g.randbytes(size)
                    case = {'from_list': [len(x) for x in items], 'item_size': size, 'chunk': chunk, 'list_len': given_len}
                    core.note_case(case)
                    d = os.path.join(home, 'f%d' % k)
                    os.mkdir(d)
                    r['evaluations'] += 1
                    r['states'] += 1
                    r['transitions'] += 3
                    if n == 0:
                        shutil.rmtree(d); continue
                    try:
                        a = SPFLBArray.from_list(items, d + '/a', chunk_size=chunk, item_size=size, list_len=given_len)
                        total = max(given_len or n, n)
                        exp = [b'\x00' * (size - len(x)) + x for x in items] + [b'\x00' * size] * (total - n)
                        got = a[:]
                        if got != exp or len(a) != total:
                            r.v(PROPERTY, 'SPFLBArray', 'from_list', 'contents', case, exp, got)
                        items[0] = b'\xff' * size          # later mutation of the source list must not matter
                        if a[0] != exp[0]:
                            r.v(PROPERTY, 'SPFLBArray', 'from_list', 'aliases-source', case, exp[0], a[0])
                        a.close()
                        b = SPFLBArray.open(d + '/a')
                        if b[:] != exp:
                            r.v(PROPERTY, 'SPFLBArray', 'from_list', 'contents-after-reopen', case, exp, b[:])
                        b.close()
                        allowed = {'a_meta'} | {'a_%d' % j for j in range(-(-total // chunk))}
                        if not set(os.listdir(d)) <= allowed:
                            r.v(PROPERTY, 'SPFLBArray', 'stray-file', 'from_list', case, sorted(allowed), sorted(os.listdir(d)))
                        r['nontrivial'] += 1
                    except Exception as e:
                        r.v(PROPERTY, 'SPFLBArray', 'from_list', 'raises:%s' % type(e).__name__, case, 'array', core.exc_text(e))
                    shutil.rmtree(d, ignore_errors=True)
    d = os.path.join(home, 'missing')
    os.mkdir(d)
    try:
        SPFLBArray.open(d + '/nothing')
        r.v(PROPERTY, 'SPFLBArray', 'open-missing', 'accepted', {'open': 'missing path'}, 'FileNotFoundError', 'opened')
    except FileNotFoundError:
        pass
    if os.listdir(d):
        r.v(PROPERTY, 'SPFLBArray', 'stray-file', 'open-missing', {'open': 'missing path'}, [], os.listdir(d))
    with SPFLBArray.create(d + '/c', item_size=1, array_len=2, item_num_in_one_file=1) as a:
        a[1] = b'\x01'
    try:
        a[1]
        r.v(PROPERTY, 'SPFLBArray', 'accepted-instead-of-raising', 'get/closed-by-context', {'with': 'exit'}, 'exception', 'value')
    except Exception:
        pass
    r.outcome('misc-ok')
    r.sample({'misc': 'from_list over sizes/chunks/explicit lengths, open(missing), context manager'})
    shutil.rmtree(home, ignore_errors=True)


def replay(case, seed):
    r = core.Result()
    if 'config' not in case:
        run_misc(r, seed)
        return r['violations']
    cfg = case['config']
    system = ArraySystem(cfg['array_len'], cfg['item_size'], cfg['items_per_file'])
    s = system.fresh()
    for ev in case['history']:
        system.step(s, tuple(ev))
    ev = tuple(case['event'])
    for prob in system.step(s, ev):
        kind, site = site_of(ev, prob)
        r.v(PROPERTY, 'SPFLBArray', kind, site, case, prob[2], prob[3])
    system.dispose(s)
    if system.relative:
        os.chdir(os.path.dirname(system.home))
    shutil.rmtree(system.home, ignore_errors=True)
    return r['violations']

# a subset of the units is executed again in other environments (child interpreters): see core.run_variants
ENV_VARIANTS = [{'name': 'python-O', 'flags': ['-O']},
                {'name': 'relative-paths', 'cwd': 'scratch', 'env': {'VERIF_RELATIVE_PATHS': '1'}}]

def variant_units(tier, seed, name):
    pred = lambda uid, p: p.get('kind') == 'dfs' and p.get('n') in (4, 5)
    return [u for u in units('quick', seed) if pred(u[0], u[1])]

