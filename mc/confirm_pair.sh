#!/bin/bash
# usage: w5.sh ID [extra checks for A] [extra checks for B]
id=$1; ea=$2; eb=$3
cd /verif
for x in A B; do
  as=$( [ $x = A ] && echo K || echo L )
  extra=$( [ $x = A ] && echo "$ea" || echo "$eb" )
  chk=$id; [ -n "$extra" ] && chk="$id,$extra"
  echo "=== $id-$as (from $x) checks=$chk"
  /venv/bin/python -m mc.confirm /tmp/wt/$id $x --as $as --checks $chk 2>&1 | grep -v "WARNING conda"
done
