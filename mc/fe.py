"""Front-end harness for engines E3/E4: boots the real server on the virtual network, raw protocol clients,
CLI-shaped driver for the real client service, fixtures (configs, indexes, tokens)."""
import os, pickle, shutil, copy, itertools, hashlib, json
from mc import det, vnet

_mods = {}
_sid_counter = itertools.count(1)


def mods():
    """import the front end AFTER HOME has been redirected (paths are computed at import time)"""
    if _mods:
        return _mods
    det.worker_home()
    import logging
    logging.disable(logging.CRITICAL)
    import websockets
    import websockets.client
    import frontend.server.connector as connector
    import frontend.server.services.file_manager as sfm
    import frontend.server.services.services_manager as smgr
    import frontend.server.services.service as sservice
    import frontend.client.services.service as cservice
    import frontend.client.services.file_manager as cfm
    import global_config
    global_config.ClientConfig.SERVER_URI = 'ws://h:1'
    _mods.update(websockets=websockets, connector=connector, sfm=sfm, smgr=smgr, sservice=sservice, cservice=cservice, cfm=cfm,
                 global_config=global_config)
    return _mods


def new_sid(tag='s'):
    # mixed case and characters that URL-quoting, shells and case-folding treat specially, on purpose: a sid is an opaque string
    # chosen by the client (anything that is a legal directory name)
    return '%s%05d-Pid%d-MiXed=+%%41:~ \u00e9' % (tag.capitalize(), next(_sid_counter), os.getpid())


class World:
    """one execution: a virtual loop, a server generation, scratch state directories"""

    def __init__(self, choices=(), eager=False):
        self.m = mods()
        self.loop = vnet.VLoop(choices)
        self.loop.eager_all = eager
        self.gen = 0
        self.server = None
        self.sids = []
        self.client_sids = []

    # ---- server life cycle
    def start_server(self):
        self.gen += 1
        comp = 'server#%d' % self.gen
        m = self.m
        m['connector']._sse_service_manager = m['smgr'].ServicesManager()

        async def boot():
            return await m['websockets'].serve(m['connector'].handler, 'h', 1, max_size=None)
        task = self.loop.spawn(boot(), comp)
        self.loop.run_until(task.done)
        self.server = task.result()
        return comp

    def server_component(self):
        return 'server#%d' % self.gen

    def kill_server(self):
        self.loop.kill(self.server_component())
        self.server = None

    def stop_server(self):
        """orderly shutdown (used for 'server restart' in C09): close listener and all connections"""
        if self.server is None:
            return
        srv = self.server

        async def stop():
            srv.close()
            await srv.wait_closed()
        t = self.loop.spawn(stop(), self.server_component())
        try:
            self.loop.run_until(t.done)
        except vnet.Deadlock:
            pass
        self.loop.quiesce()
        self.server = None

    def manager(self):
        return self.m['connector']._sse_service_manager

    # ---- files
    def server_dir(self, sid):
        return str(self.m['sfm']._PROGRAM_PATH.joinpath(sid))

    def client_dir(self, sid):
        return str(self.m['cfm']._PROGRAM_PATH.joinpath(sid))

    def server_files(self, sid):
        d = self.server_dir(sid)
        out = {}
        if os.path.isdir(d):
            for fn in sorted(os.listdir(d)):
                with open(os.path.join(d, fn), 'rb') as f:
                    out[fn] = f.read()
        return out

    def client_files(self, sid):
        d = self.client_dir(sid)
        out = {}
        if os.path.isdir(d):
            for fn in sorted(os.listdir(d)):
                with open(os.path.join(d, fn), 'rb') as f:
                    out[fn] = f.read()
        return out

    def close(self):
        try:
            self.loop.shutdown()
        finally:
            for sid in self.sids:
                shutil.rmtree(self.server_dir(sid), ignore_errors=True)
            for sid in self.client_sids:
                shutil.rmtree(self.client_dir(sid), ignore_errors=True)


class RawConn:
    """a raw protocol client driven step by step by the harness (plain function calls)"""

    def __init__(self, world, sid, name='c'):
        self.w = world
        self.sid = sid
        self.name = name
        self.ws = None
        self.inbox = []          # decoded messages in arrival order
        self.closed = False
        self.close_code = None
        self.cursor = 0
        self.reader = None

    def _run(self, coro):
        t = self.w.loop.spawn(coro, 'harness')
        self.w.loop.run_until(t.done)
        return t.result()

    def open(self):
        m = self.w.m
        async def connect():
            return await m['websockets'].connect('ws://h:1', max_size=None)
        self.ws = self._run(connect())
        self._run(self.ws.send(pickle.dumps({'type': 'init', 'sid': self.sid})))

        async def reader():
            try:
                async for raw in self.ws:
                    self.inbox.append(pickle.loads(raw))
            except Exception:
                pass
            self.closed = True
            self.close_code = self.ws.close_code
        self.reader = self.w.loop.spawn(reader(), 'harness')
        return self

    def send(self, typ, content, sid=None, **extra):
        d = {'type': typ, 'sid': self.sid if sid is None else sid, 'content': content}
        d.update(extra)
        if typ is None:
            del d['type']
        if sid == '__omit__':
            del d['sid']
        try:
            self._run(self.ws.send(pickle.dumps(d)))
            return True
        except Exception:
            return False

    def send_raw(self, d):
        try:
            self._run(self.ws.send(pickle.dumps(d)))
            return True
        except Exception:
            return False

    def close(self):
        try:
            self._run(self.ws.close())
        except Exception:
            pass

    def new_messages(self):
        out = self.inbox[self.cursor:]
        self.cursor = len(self.inbox)
        return out


def settle(loop, timers=False, max_steps=200000):
    """run ready callbacks and deliveries to quiescence; fire short timers too iff timers=True"""
    from asyncio import events
    events._set_running_loop(loop)
    try:
        while True:
            if loop.steps > max_steps:
                raise vnet.Horizon('step budget exhausted while settling')
            if loop._ready:
                loop._run_ready()
                loop.steps += 1
                continue
            pending = [l for l in loop.links if l.q]
            if pending:
                loop._deliver(pending[0])
                loop.steps += 1
                continue
            if timers:
                short = [h for h in loop._live_timers() if loop._delays.get(id(h), 0) <= loop.SHORT]
                if short:
                    loop._fire(min(short))
                    loop.steps += 1
                    continue
            break
    finally:
        events._set_running_loop(None)


# --------------------------------------------------------------------------- fixtures
def pibas_cfg(salt):
    from schemes.CJJ14.PiBas.config import DEFAULT_CONFIG
    c = copy.deepcopy(DEFAULT_CONFIG)
    c.update(param_lambda=16, prf_f_output_length=16)
    c['salt'] = salt
    return c


def parse_server_frames(data):
    """decode unmasked, uncompressed server->client websocket frames: list of (opcode, payload)"""
    out, i = [], 0
    while i + 2 <= len(data):
        b0, b1 = data[i], data[i + 1]
        if b0 & 0x70 or b1 & 0x80:      # RSV bits (compression) or masked: not ours to decode
            return None
        ln = b1 & 0x7f
        i += 2
        if ln == 126:
            ln = int.from_bytes(data[i:i + 2], 'big'); i += 2
        elif ln == 127:
            ln = int.from_bytes(data[i:i + 8], 'big'); i += 8
        out.append((b0 & 0x0f, data[i:i + ln]))
        i += ln
    return out


class Fixture:
    """two configurations differing in salt, one key, two indexes of two different databases, a token whose answer
    differs between them"""

    def __init__(self, seed):
        import schemes
        det.seed_case(seed, 'fe-fixture')
        g = det.rng(seed, 'fe-fixture')
        self.c1, self.c2 = pibas_cfg('aa' * 8), pibas_cfg('bb' * 8)
        self.cfgs = [pibas_cfg('%02x' % (0xa0 + i) * 8) for i in range(5)]
        L = schemes.load_sse_module('CJJ14.PiBas')
        self.L = L
        sch = L.SSEScheme(self.c1)
        self.key = sch.KeyGen()
        self.kw = b'keyword'
        self.db1 = {self.kw: [g.randbytes(8) for _ in range(3)], b'other': [g.randbytes(8)]}
        self.db2 = {self.kw: [g.randbytes(8) for _ in range(2)], b'third': [g.randbytes(8) for _ in range(2)]}
        self.e1 = sch.EDBSetup(self.key, self.db1).serialize()
        self.e2 = sch.EDBSetup(self.key, self.db2).serialize()
        self.dbs = [{self.kw: [g.randbytes(8) for _ in range(1 + i % 3)], b'x%d' % i: [g.randbytes(8)]} for i in range(5)]
        self.edbs = [sch.EDBSetup(self.key, d).serialize() for d in self.dbs]
        self.tok = sch.TokenGen(self.key, self.kw).serialize()
        self.tok_digest = hashlib.sha256(self.tok).digest()
        self.kw2 = b'other'                                            # one posting in db1, absent from db2
        self.tok2 = sch.TokenGen(self.key, self.kw2).serialize()
        self.cfgobj = sch.config
        det.restore()

    def decode_result(self, content):
        return self.L.SSEResult.deserialize(content, self.cfgobj).get_result_list()

    def answer(self, which, kw=None):
        return list({1: self.db1, 2: self.db2}[which].get(kw or self.kw, []))


class ClientDriver:
    """drives the real frontend.client.services.service.Service the way frontend/client/commands.py does"""

    def __init__(self, world, comp='client#1'):
        self.w = world
        self.comp = comp
        self.sid = ''
        self.svc = None
        self.results = {}

    def _call(self, f, *a, **k):
        async def wrapper():
            r = f(*a, **k)
            if hasattr(r, '__await__'):
                r = await r
            return r
        t = self.w.loop.spawn(wrapper(), self.comp)
        self.w.loop.run_until(t.done)
        return t.result()

    def load(self):
        """Service(sid) reloaded from disk, as every CLI command does"""
        Service = self.w.m['cservice'].Service
        self.svc = self._call(lambda: Service(self.sid))
        return self.svc

    def drop(self):
        """close_service() as the CLI's finally-clause does, then forget the object"""
        if self.svc is not None:
            svc, self.svc = self.svc, None
            self._call(svc.close_service)

    def ensure(self, reload):
        if reload or self.svc is None:
            self.drop()
            self.load()

    def create(self, config, prelude=None):
        Service = self.w.m['cservice'].Service
        self.svc = self._call(lambda: Service())
        self.prelude_outcome = None
        if prelude is not None:
            # the same client object is first offered a configuration that cannot be instantiated (it must refuse it)
            try:
                self._call(self.svc.handle_create_config, prelude)
                self.prelude_outcome = 'accepted'
            except Exception as e:
                self.prelude_outcome = 'refused:' + type(e).__name__
        self.sid = self._call(self.svc.handle_create_config, config)
        self.w.client_sids.append(self.sid)
        self.w.sids.append(self.sid)
        return self.sid

    def genkey(self):
        return self._call(self.svc.handle_create_key)

    def encrypt(self, db):
        return self._call(self.svc.handle_encrypt_database, db)

    def upload_config(self):
        got = []
        self._call(self.svc.handle_upload_config, wait=True, wait_callback_func=lambda fut: got.append(pickle.loads(fut.result())))
        return got

    def upload_index(self):
        got = []
        self._call(self.svc.handle_upload_encrypted_database, wait=True, wait_callback_func=lambda fut: got.append(pickle.loads(fut.result())))
        return got

    def search(self, keyword_bytes):
        got = []
        self._call(self.svc.handle_keyword_search, keyword_bytes, wait=True, wait_callback_func=lambda fut: got.append(fut.result()))
        return got


def fire_one_short_timer(loop):
    """let virtual time pass up to the earliest armed short timer (the server's cleanup delay) and run what it triggers;
    returns False if none is armed"""
    short = [h for h in loop._live_timers() if loop._delays.get(id(h), 0) <= loop.SHORT]
    if not short:
        return False
    from asyncio import events
    events._set_running_loop(loop)
    try:
        loop._fire(min(short))
    finally:
        events._set_running_loop(None)
    settle(loop, timers=False)
    return True
