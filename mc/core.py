"""Runner shared by all checks: work-unit scheduler, violation bookkeeping, replay artefacts,
known-findings matcher and evidence writer.  See DESIGN.md sections 2 and 3."""
import os, sys, json, time, hashlib, traceback, signal, multiprocessing, subprocess, collections

VERIF = os.path.dirname(os.path.dirname(os.path.abspath(__file__)))
REPO = os.environ.get('VERIF_REPO', '/repo')
SEED = int(os.environ.get('VERIF_SEED', '0') or 0)
NPROC = int(os.environ.get('VERIF_JOBS', '0') or 0) or (os.cpu_count() or 4)
KNOWN_FILE = os.path.join(VERIF, 'KNOWN_FINDINGS.txt')
EVIDENCE_DIR = os.path.join(VERIF, 'evidence')
REPLAY_DIR = os.path.join(VERIF, 'replays')
UNIT_TIMEOUT = {'quick': 900, 'thorough': 7200}


# ----------------------------------------------------------------------------- json helpers
def enc(x):
    """JSON-able encoding that keeps bytes, tuples, sets and non-str dict keys recoverable."""
    if isinstance(x, (bytes, bytearray)):
        return {'$b': bytes(x).hex()}
    if isinstance(x, tuple):
        return {'$t': [enc(v) for v in x]}
    if isinstance(x, (set, frozenset)):
        return {'$s': sorted((enc(v) for v in x), key=repr)}
    if isinstance(x, list):
        return [enc(v) for v in x]
    if isinstance(x, dict):
        if all(isinstance(k, str) and not k.startswith('$') for k in x):
            return {k: enc(v) for k, v in x.items()}
        return {'$d': [[enc(k), enc(v)] for k, v in x.items()]}
    if isinstance(x, slice):
        return {'$sl': [x.start, x.stop, x.step]}
    if isinstance(x, float) or x is None or isinstance(x, (bool, int, str)):
        return x
    return {'$r': repr(x)}


def dec(x):
    if isinstance(x, list):
        return [dec(v) for v in x]
    if isinstance(x, dict):
        if len(x) == 1:
            (k, v), = x.items()
            if k == '$b': return bytes.fromhex(v)
            if k == '$t': return tuple(dec(i) for i in v)
            if k == '$s': return set(dec(i) for i in v)
            if k == '$d': return {dec(a): dec(b) for a, b in v}
            if k == '$sl': return slice(*v)
            if k == '$r': return v
        return {k: dec(v) for k, v in x.items()}
    return x


def short(x, n=300):
    s = x if isinstance(x, str) else repr(x)
    return s if len(s) <= n else s[:n] + '...<%d chars>' % len(s)


# ----------------------------------------------------------------------------- violations
def violation(prop, component, kind, site, case, expected=None, observed=None, detail=''):
    sig = '%s|%s|%s|%s' % (prop, component, kind, site)
    return {'property': prop, 'component': component, 'kind': kind, 'site': site, 'signature': sig,
            'case': enc(case), 'expected': short(expected), 'observed': short(observed), 'detail': short(detail, 2000)}


def exc_site(exc, prefer=None):
    """file:function of the innermost frame inside the repository (else inside /verif)."""
    prefer = prefer or REPO
    tb = traceback.extract_tb(exc.__traceback__)
    best = None
    for fr in tb:
        if fr.filename.startswith(prefer.rstrip('/') + '/'):
            best = fr
    if best is None:
        for fr in tb:
            if fr.filename.startswith(VERIF):
                best = fr
    if best is None and tb:
        best = tb[-1]
    if best is None:
        return 'unknown'
    fn = best.filename
    for root in (prefer.rstrip('/') + '/', VERIF + '/'):
        if fn.startswith(root):
            fn = fn[len(root):]
    return '%s:%s' % (fn, best.name)


def exc_text(exc):
    return '%s: %s' % (type(exc).__name__, short(str(exc), 200))


class Result(dict):
    """What a work unit returns.  All counts are measured by the unit."""

    def __init__(self):
        super().__init__(violations=[], evaluations=0, states=0, transitions=0, nontrivial=0,
                         counters=collections.Counter(), samples=[], outcomes=collections.Counter(),
                         caps=[], traces=0)
        self._per_sig = {}

    def v(self, *a, **k):
        v = violation(*a, **k)
        n = self._per_sig[v['signature']] = self._per_sig.get(v['signature'], 0) + 1
        if n <= 3:          # keep the first few per signature (simplest-first order), count the rest
            self['violations'].append(v)
        else:
            self['counters']['suppressed-duplicates:' + v['signature']] += 1

    def count(self, name, n=1):
        self['counters'][name] += n

    def outcome(self, o):
        self['outcomes'][o if isinstance(o, str) else repr(o)] += 1

    def sample(self, s, limit=3):
        if len(self['samples']) < limit:
            self['samples'].append(enc(s))


def merge(total, r):
    total['violations'].extend(r['violations'])
    for k in ('evaluations', 'states', 'transitions', 'nontrivial', 'traces'):
        total[k] += r[k]
    total['counters'].update(r['counters'])
    total['outcomes'].update(r['outcomes'])
    total['caps'].extend(r['caps'])
    for s in r['samples']:
        if len(total['samples']) < 6:
            total['samples'].append(s)


# ----------------------------------------------------------------------------- known findings
def load_known():
    known, fixed = {}, []
    if os.path.exists(KNOWN_FILE):
        for line in open(KNOWN_FILE, encoding='utf8'):
            line = line.strip()
            if line.startswith('known:'):
                parts = line[len('known:'):].strip().split(None, 2)
                kv = dict(p.split('=', 1) for p in parts[:2] if '=' in p)
                if 'property' in kv and 'signature' in kv:
                    known[kv['signature']] = (kv['property'], parts[2] if len(parts) > 2 else '')
            elif line.startswith('fixed:'):
                fixed.append(line)
    return known, fixed


# ----------------------------------------------------------------------------- unit execution
class UnitTimeout(BaseException):
    pass


_current = {'mod': None, 'tier': 'quick', 'case': None}


def note_case(case):
    """checks call this before each case so that a watchdog expiry can name the case"""
    _current['case'] = case


def _alarm(signum, frame):
    raise UnitTimeout()


def _run_unit(arg):
    modname, tier, idx, uid, payload = arg
    import importlib
    mod = importlib.import_module(modname)
    _current['case'] = None
    t0 = time.time()
    limit = int(os.environ.get('VERIF_UNIT_TIMEOUT', UNIT_TIMEOUT[tier]))
    old = signal.signal(signal.SIGALRM, _alarm)
    signal.alarm(limit)
    try:
        try:
            r = mod.run_unit(payload, tier, SEED)
        finally:
            signal.alarm(0)
            signal.signal(signal.SIGALRM, old)
    except UnitTimeout:
        r = Result()
        r.v(mod.PROPERTY, 'unit', 'timeout', str(uid), {'unit': uid, 'payload': payload, 'case': _current['case']},
            expected='unit finishes within %d s' % limit, observed='still running (non-termination?)')
    except BaseException as e:  # noqa: anything escaping a unit is reported, never swallowed
        if isinstance(e, KeyboardInterrupt):
            raise
        r = Result()
        r.v(mod.PROPERTY, 'unit', 'unexpected-exception', exc_site(e),
            {'unit': uid, 'payload': payload, 'case': _current['case']},
            expected='no exception escapes the harness', observed=exc_text(e),
            detail=''.join(traceback.format_exception(type(e), e, e.__traceback__))[-1800:])
    r['unit'] = (idx, uid)
    r['wall'] = time.time() - t0
    for v in r['violations']:
        v['unit_index'] = idx
    return dict(r)


def run_units(mod, tier, jobs=None):
    try:
        units = list(mod.units(tier, SEED))
    except Exception as e:
        # the work list itself is computed with the library (default configurations, validity domains): if that already fails,
        # it is reported like any exception escaping a unit
        total = Result()
        total.v(mod.PROPERTY, 'unit', 'unexpected-exception', 'enumerating-units/' + exc_site(e), {'enumerating_units': tier},
                expected='the work list can be computed (default configurations, validity domains)', observed=exc_text(e),
                detail=''.join(traceback.format_exception(type(e), e, e.__traceback__))[-1800:])
        total['n_units'] = 0
        total['slowest_units'] = []
        return total
    args = [(mod.__name__, tier, i, uid, payload) for i, (uid, payload) in enumerate(units)]
    total = Result()
    walls = []
    jobs = jobs or NPROC
    if jobs <= 1 or len(args) <= 1:
        it = map(_run_unit, args)
        for r in it:
            merge(total, r); walls.append((r['wall'], r['unit'][1]))
    else:
        ctx = multiprocessing.get_context('fork')
        with ctx.Pool(min(jobs, len(args)), maxtasksperchild=getattr(mod, 'MAXTASKS', None)) as pool:
            for r in pool.imap_unordered(_run_unit, args, chunksize=1):
                merge(total, r); walls.append((r['wall'], r['unit'][1]))
    total['n_units'] = len(args)
    total['slowest_units'] = [(round(w, 2), str(u)) for w, u in sorted(walls, reverse=True)[:3]]
    return total


# ----------------------------------------------------------------------------- environment variants
# A check may name environments other than the default one in which a SUBSET of its units is executed again, in a child
# interpreter: ENV_VARIANTS = [{'name': 'python-O', 'flags': ['-O']}, {'name': 'locale-C', 'env': {...}}, {'name': .., 'rlimit': {'AS': n}}]
# and variant_units(tier, seed, name) -> [(uid, payload)].  Violations found there carry the environment in site and case.
def _variant_preexec(var):
    lim = var.get('rlimit') or {}
    if not lim:
        return None

    def f():
        import resource
        for k, v in lim.items():
            resource.setrlimit(getattr(resource, 'RLIMIT_' + k), (v, v))
    return f


def variant_cmd(var, prop, extra):
    env = dict(os.environ)
    env.update(var.get('env', {}))
    env['VERIF_VARIANT'] = var['name']
    for k in var.get('unset', []):
        env.pop(k, None)
    return ['/venv/bin/python', '-B'] + list(var.get('flags', [])) + ['-m', 'mc.cli', prop] + extra, env


def variant_cwd(var):
    """the directory the child interpreter is started in (and imports the library in): /verif, or a fresh scratch directory"""
    if var.get('cwd') == 'scratch':
        import tempfile
        return tempfile.mkdtemp(prefix='ssepy-verif-cwd-', dir='/dev/shm' if os.path.isdir('/dev/shm') else None)
    return VERIF


def variant_cwd_done(var, d):
    if var.get('cwd') == 'scratch':
        import shutil
        shutil.rmtree(d, ignore_errors=True)


def run_variants(mod, tier, total):
    for var in getattr(mod, 'ENV_VARIANTS', []):
        cmd, env = variant_cmd(var, mod.PROPERTY, [tier, '--variant', var['name']])
        t0 = time.time()
        cwd = variant_cwd(var)
        try:
            try:
                p = subprocess.run(cmd, capture_output=True, text=True, env=env, timeout=UNIT_TIMEOUT[tier], preexec_fn=_variant_preexec(var), cwd=cwd)
            finally:
                variant_cwd_done(var, cwd)
            line = [l for l in p.stdout.splitlines() if l.startswith('VARIANT-RESULT ')]
            if not line:
                raise RuntimeError('variant child produced no result (rc=%s): %s' % (p.returncode, (p.stdout + p.stderr)[-600:]))
            sub = json.loads(line[-1][len('VARIANT-RESULT '):])
        except Exception as e:
            r = Result()
            r.v(mod.PROPERTY, 'unit', 'unexpected-exception', 'environment-variant/%s' % var['name'], {'environment': var['name']},
                'the units run in the child interpreter', exc_text(e))
            merge(total, r)
            continue
        for v in sub['violations']:
            v['site'] = '%s@%s' % (v['site'], var['name'])
            v['signature'] = '%s|%s|%s|%s' % (v['property'], v['component'], v['kind'], v['site'])
            if isinstance(v.get('case'), dict):
                v['case']['environment'] = var['name']
            v['unit_index'] = 10 ** 6
            total['violations'].append(v)
        for k in ('evaluations', 'states', 'transitions', 'nontrivial', 'traces'):
            total[k] += sub.get(k, 0)
        for k, n in sub.get('counters', {}).items():
            total['counters']['%s@%s' % (k, var['name'])] += n
        total['counters']['environment-variant-units@%s' % var['name']] += sub.get('n_units', 0)
        total['outcomes']['environment/%s' % var['name']] += 1
        total['caps'].extend(sub.get('caps', []))


def apply_process_environment():
    """environment answers a variant fixes inside the child interpreter (cli calls this first, for unit runs and replays alike)"""
    if os.environ.get('VERIF_CPU_COUNT'):
        # a host with that many processors: what os.cpu_count and friends answer is the environment's choice
        n = int(os.environ['VERIF_CPU_COUNT'])
        import multiprocessing
        os.cpu_count = lambda: n
        multiprocessing.cpu_count = lambda: n
        if hasattr(os, 'sched_getaffinity'):
            os.sched_getaffinity = lambda pid=0: set(range(n))


def variant_child(mod, tier, name):
    """runs in the child interpreter: the variant's units, result as one JSON line"""
    import types
    units = list(mod.variant_units(tier, SEED, name))
    shim = types.SimpleNamespace(**{k: getattr(mod, k) for k in dir(mod) if not k.startswith('__')})
    shim.units = lambda tier_, seed_: units
    shim.__name__ = mod.__name__
    total = run_units(shim, tier, jobs=min(NPROC, 8))
    out = {k: total[k] for k in ('evaluations', 'states', 'transitions', 'nontrivial', 'traces', 'caps')}
    out['violations'] = total['violations']
    out['counters'] = dict(total['counters'])
    out['n_units'] = total.get('n_units', 0)
    print('VARIANT-RESULT ' + json.dumps(out, default=repr))
    return 0


# ----------------------------------------------------------------------------- reporting
def write_replay(v):
    os.makedirs(REPLAY_DIR, exist_ok=True)
    body = {k: v[k] for k in ('property', 'component', 'kind', 'site', 'signature', 'case', 'expected', 'observed', 'detail')}
    body['seed'] = SEED
    h = hashlib.sha256(json.dumps([body['signature'], body['case']], sort_keys=True).encode()).hexdigest()[:12]
    path = os.path.join(REPLAY_DIR, '%s-%s.json' % (v['property'], h))
    with open(path, 'w') as f:
        json.dump(body, f, indent=1, sort_keys=True)
    return path


def confirm_replay(prop, path, times=2):
    """re-execute the replay file in fresh processes; returns number of runs that reproduced it"""
    ok = 0
    for _ in range(times):
        p = subprocess.run([os.path.join(VERIF, 'check'), prop, '--replay', path], capture_output=True, text=True,
                           env=dict(os.environ, VERIF_SEED=str(SEED), VERIF_NO_CONFIRM='1'), timeout=1800)
        if p.returncode == 1 and 'VIOLATION' in p.stdout:
            ok += 1
    return ok


def report(mod, tier, total, wall, extra_cov=None, write_evidence=True):
    prop = mod.PROPERTY
    known, _fixed = load_known()
    by_sig = collections.OrderedDict()
    for v in sorted(total['violations'], key=lambda v: v.get('unit_index', 0)):
        by_sig.setdefault(v['signature'], []).append(v)
    new, printed_known = [], 0
    variant_names = {v['name'] for v in getattr(mod, 'ENV_VARIANTS', [])}
    for sig, vs in by_sig.items():
        # the same finding met again in another environment (signature suffix @<variant>) is the same finding
        base = sig.rsplit('@', 1)[0] if '@' in sig and sig.rsplit('@', 1)[1] in variant_names else sig
        if base in known and known[base][0] == prop:
            if base == sig or base not in by_sig:
                print('KNOWN-FINDING: property=%s %s  [signature=%s, %d occurrence(s) in this run; e.g. case=%s observed=%s]'
                      % (prop, known[base][1], sig, len(vs), short(json.dumps(vs[0]['case']), 160), short(vs[0]['observed'], 120)))
                printed_known += 1
        else:
            new.append((sig, vs))
    max_report = int(os.environ.get('VERIF_MAX_REPORT', '12'))
    for i, (sig, vs) in enumerate(new):
        if i >= max_report:
            print('... %d further distinct violation signatures not written out' % (len(new) - max_report))
            break
        v = vs[0]
        path = write_replay(v)
        repro = ''
        if i < 3 and not os.environ.get('VERIF_NO_CONFIRM') and hasattr(mod, 'replay'):
            try:
                n = confirm_replay(prop, path)
                repro = ' reproduced=%d/2' % n
            except Exception as e:  # pragma: no cover
                repro = ' reproduced=?(%s)' % type(e).__name__
        print('VIOLATION property=%s replay=%s' % (prop, path))
        print('  signature=%s occurrences=%d%s' % (sig, len(vs), repro))
        print('  case=%s' % short(json.dumps(v['case']), 400))
        print('  expected=%s' % v['expected'])
        print('  observed=%s' % v['observed'])
        if v.get('detail'):
            print('  detail=%s' % short(v['detail'], 600).replace('\n', '\n    '))
    if write_evidence and not os.environ.get('VERIF_NO_EVIDENCE'):
        desc = mod.describe(tier) if hasattr(mod, 'describe') else {}
        cov = {
            'evaluations': total['evaluations'],
            'distinct_nontrivial': total['nontrivial'],
            'rule': desc.get('rule', ''),
            'samples': total['samples'][:6] or [desc.get('sample', 'n/a')],
            'states': max(total['states'], 1),
            'transitions': max(total['transitions'], 1),
            'traces_validated_against_impl': total['traces'] or total['evaluations'],
            'exhaustive': (not total['caps']) and desc.get('exhaustive', True),
            'bounds': desc.get('bounds', ''),
            'work_units': total.get('n_units', 0),
            'distinct_observed_outcomes': len(total['outcomes']),
            'outcome_histogram': dict(sorted(total['outcomes'].items(), key=lambda kv: -kv[1])[:25]),
            'vacuity_counters': dict(sorted(total['counters'].items())),
            'caps_hit': total['caps'][:20],
            'violation_signatures': [s for s, _ in new][:50],
            'known_finding_signatures': [s for s in by_sig if s in known or (('@' in s) and s.rsplit('@', 1)[0] in known)],
            'slowest_units': total.get('slowest_units', []),
            'engine': getattr(mod, 'ENGINE', ''),
        }
        zero = [k for k in desc.get('must_be_nonzero', []) if not total['counters'].get(k)]
        if zero:
            cov['vacuity_warnings'] = ['counter %s is zero: the branch this check exists for was not exercised' % k for k in zero]
        if extra_cov:
            cov.update(extra_cov)
        ev = {'property_id': prop, 'tier': tier, 'seed': SEED, 'level': getattr(mod, 'LEVEL', 'model_checking'),
              'coverage': cov, 'assumptions': desc.get('assumptions', []), 'wall_s': round(wall, 2),
              'violations': len(new)}
        os.makedirs(EVIDENCE_DIR, exist_ok=True)
        tmp = os.path.join(EVIDENCE_DIR, '.%s.json.tmp' % prop)
        with open(tmp, 'w') as f:
            json.dump(ev, f, indent=1, sort_keys=True, default=repr)
        os.replace(tmp, os.path.join(EVIDENCE_DIR, '%s.json' % prop))
    print('%s %s: units=%d evaluations=%d states=%d transitions=%d distinct_outcomes=%d violations=%d known=%d wall=%.1fs seed=%d'
          % (prop, tier, total.get('n_units', 0), total['evaluations'], total['states'], total['transitions'],
             len(total['outcomes']), len(new), printed_known, wall, SEED))
    return 1 if new else 0
