"""One phase of a C09 workflow in an interpreter of its own (mc/checks/c09.py, 'processes' units).

    python -B -m mc.phase09 '<json: home, seed, scheme, db, steps [a, b], sid>'

The workflow steps a..b-1 are run by the real client and the real server on the virtual network inside THIS process, on the
on-disk state under <home> left by the phases before it; PYTHONHASHSEED (and everything else that is per process) is the
caller's choice.  Prints one line 'PHASE-RESULT <json>'."""
import os, sys, json


def main():
    args = json.loads(sys.argv[1])
    os.environ['HOME'] = args['home']
    import logging
    logging.disable(logging.CRITICAL)
    from mc import det, core
    det._state['home'] = args['home']
    det._state['pid'] = os.getpid()              # (no exit hook is registered here: the caller owns and removes the directory)
    from mc.checks import c09
    r = core.Result()
    sid = c09.run_case(r, args['seed'], args['scheme'], args['db'], [0] * 6, None, steps=tuple(args['steps']), sid=args.get('sid'))
    out = {'sid': sid, 'violations': r['violations'], 'transitions': r['transitions'], 'outcomes': sorted(r['outcomes']) if 'outcomes' in r else []}
    print('PHASE-RESULT ' + json.dumps(out, default=repr))
    sys.stdout.flush()
    os._exit(0)


if __name__ == '__main__':
    main()
