"""./check <id> [quick|thorough] [--replay FILE]"""
import sys, os, json, time, importlib


def main(argv):
    if not argv:
        print(__doc__); return 2
    prop = argv[0].upper()
    tier = os.environ.get('VERIF_TIER') or 'quick'
    replay = None
    variant = None
    rest = argv[1:]
    while rest:
        a = rest.pop(0)
        if a in ('quick', 'thorough'):
            tier = a
        elif a == '--replay':
            replay = rest.pop(0)
        elif a == '--variant':
            variant = rest.pop(0)
        else:
            print('unknown argument', a); return 2
    from mc import det, core
    det.scratch_home()
    core.apply_process_environment()
    mod = importlib.import_module('mc.checks.%s' % prop.lower())
    if variant and not replay:
        return core.variant_child(mod, tier, variant)
    if replay:
        body = json.load(open(replay))
        envname = body.get('case', {}).get('environment') if isinstance(body.get('case'), dict) else None
        if envname and os.environ.get('VERIF_VARIANT') != envname:
            # found in another environment: replay it there
            import subprocess
            var = [v for v in getattr(mod, 'ENV_VARIANTS', []) if v['name'] == envname]
            if var:
                cmd, env = core.variant_cmd(var[0], prop, ['--replay', os.path.abspath(replay)])
                cwd = core.variant_cwd(var[0])
                try:
                    p = subprocess.run(cmd, env=env, preexec_fn=core._variant_preexec(var[0]), cwd=cwd)
                finally:
                    core.variant_cwd_done(var[0], cwd)
                return p.returncode
        if isinstance(body.get('case'), dict) and 'enumerating_units' in body['case']:
            vs = core.run_units(mod, body['case']['enumerating_units'], jobs=1)['violations'] if True else []
            vs = [v for v in vs if v['kind'] == 'unexpected-exception' and v['site'].startswith('enumerating-units/')]
        else:
            vs = mod.replay(core.dec(body['case']), body.get('seed', core.SEED))
        if os.environ.get('VERIF_VARIANT'):
            for v in vs:
                v['site'] = '%s@%s' % (v['site'], os.environ['VERIF_VARIANT'])
                v['signature'] = '%s|%s|%s|%s' % (v['property'], v['component'], v['kind'], v['site'])
        same = [v for v in vs if v['signature'] == body['signature']]
        for v in (same or vs)[:1]:
            print('VIOLATION property=%s replay=%s' % (prop, replay))
            print('  signature=%s' % v['signature'])
            print('  expected=%s' % v['expected'])
            print('  observed=%s' % v['observed'])
            return 1
        print('%s replay %s: no violation reproduced' % (prop, replay))
        return 0
    t0 = time.time()
    if hasattr(mod, 'main'):
        return mod.main(tier)
    total = core.run_units(mod, tier)
    core.run_variants(mod, tier, total)
    extra = mod.finish(total, tier) if hasattr(mod, 'finish') else None
    return core.report(mod, tier, total, time.time() - t0, extra_cov=extra)


if __name__ == '__main__':
    rc = main(sys.argv[1:])
    sys.stdout.flush()
    sys.exit(rc)
